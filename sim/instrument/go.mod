module veriftool/instrument

go 1.26

require golang.org/x/tools v0.44.0

require (
	golang.org/x/mod v0.35.0 // indirect
	golang.org/x/sync v0.20.0 // indirect
)
