// instrument rewrites a scratch copy of the reservoir module so that every
// synchronisation or shared-state operation becomes a scheduling point known
// to the zzsim runtime (DESIGN.md §2.2, rules R1-R8).
//
// Edits are byte-offset replacements/insertions that never add or remove a
// newline, so file:line positions of the original tree are preserved.
//
// Usage: instrument -dir <module root of the scratch copy> [-report file]
// Exit 0 on success, 2 on any load/type/overlap problem.
package main

import (
	"encoding/json"
	"flag"
	"fmt"
	"go/ast"
	"go/token"
	"go/types"
	"os"
	"path/filepath"
	"sort"
	"strings"

	"golang.org/x/tools/go/packages"
)

type edit struct {
	start, end int // byte offsets; start==end is an insertion
	text       string
	seq        int
}

type fileEdits struct {
	name  string
	src   []byte
	edits []edit
}

type report struct {
	Files int            `json:"files"`
	Edits int            `json:"edits"`
	Rules map[string]int `json:"rules"`
	Sites []string       `json:"sites"`
}

var (
	rep     = report{Rules: map[string]int{}}
	modRoot string
	seq     int
)

func die(format string, a ...any) {
	fmt.Fprintf(os.Stderr, "instrument: "+format+"\n", a...)
	os.Exit(2)
}

func main() {
	dir := flag.String("dir", "", "module root of the scratch copy")
	reportPath := flag.String("report", "", "write JSON report here")
	flag.Parse()
	if *dir == "" {
		die("-dir required")
	}
	abs, err := filepath.Abs(*dir)
	if err != nil {
		die("%v", err)
	}
	modRoot = abs

	cfg := &packages.Config{
		Mode: packages.NeedName | packages.NeedFiles | packages.NeedCompiledGoFiles | packages.NeedSyntax |
			packages.NeedTypes | packages.NeedTypesInfo | packages.NeedImports | packages.NeedDeps,
		Dir:   abs,
		Tests: false,
		Env:   os.Environ(),
	}
	pkgs, err := packages.Load(cfg, "./...")
	if err != nil {
		die("load: %v", err)
	}
	bad := false
	for _, p := range pkgs {
		if skipPkg(p.PkgPath) {
			continue
		}
		for _, e := range p.Errors {
			fmt.Fprintf(os.Stderr, "instrument: %s: %v\n", p.PkgPath, e)
			bad = true
		}
	}
	if bad {
		die("type errors in the tree; refusing to instrument")
	}

	for _, p := range pkgs {
		if skipPkg(p.PkgPath) {
			continue
		}
		for _, f := range p.Syntax {
			name := p.Fset.Position(f.Pos()).Filename
			if strings.HasSuffix(name, "_test.go") || !strings.HasPrefix(name, abs) {
				continue
			}
			if filepath.Base(name) == "zz_verif_export.go" || strings.HasPrefix(filepath.Base(name), "zz_") {
				continue
			}
			src, err := os.ReadFile(name)
			if err != nil {
				die("%v", err)
			}
			fe := &fileEdits{name: name, src: src}
			instrumentFile(p, f, fe)
			if len(fe.edits) == 0 {
				continue
			}
			out := apply(fe, p.Fset, f)
			if err := os.WriteFile(name, out, 0o644); err != nil {
				die("%v", err)
			}
			rep.Files++
			rep.Edits += len(fe.edits)
		}
	}
	sort.Strings(rep.Sites)
	if *reportPath != "" {
		b, _ := json.MarshalIndent(rep, "", " ")
		os.WriteFile(*reportPath, b, 0o644)
	}
	fmt.Printf("instrument: %d edits in %d files %v\n", rep.Edits, rep.Files, rep.Rules)
}

func skipPkg(path string) bool {
	if path != "reservoir" && !strings.HasPrefix(path, "reservoir/") {
		return true
	}
	switch path {
	case "reservoir", "reservoir/webserver", "reservoir/webserver/dashboard":
		// do not compile in this checkout (frontend build output absent); not part of any harness
		return true
	}
	for _, s := range []string{"reservoir/zzsim", "reservoir/zzharness", "reservoir/zzapisim", "reservoir/tests", "reservoir/webserver/dashboard/csp/cspgen"} {
		if path == s || strings.HasPrefix(path, s+"/") {
			return true
		}
	}
	return false
}

func site(p *packages.Package, pos token.Pos, rule string) string {
	ps := p.Fset.Position(pos)
	rel, err := filepath.Rel(modRoot, ps.Filename)
	if err != nil {
		rel = ps.Filename
	}
	s := fmt.Sprintf("%s:%d:%s", rel, ps.Line, rule)
	rep.Rules[rule]++
	rep.Sites = append(rep.Sites, s)
	return s
}

func (fe *fileEdits) add(fset *token.FileSet, start, end token.Pos, text string) {
	if strings.Contains(text, "\n") {
		die("edit text contains newline: %q", text)
	}
	seq++
	fe.edits = append(fe.edits, edit{fset.Position(start).Offset, fset.Position(end).Offset, text, seq})
}

func (fe *fileEdits) text(fset *token.FileSet, n ast.Node) string {
	return string(fe.src[fset.Position(n.Pos()).Offset:fset.Position(n.End()).Offset])
}

func apply(fe *fileEdits, fset *token.FileSet, f *ast.File) []byte {
	// import goes right after the package name, on the same line.
	seq++
	off := fset.Position(f.Name.End()).Offset
	fe.edits = append(fe.edits, edit{off, off, `;import zzsim "reservoir/zzsim"`, seq})
	sort.SliceStable(fe.edits, func(i, j int) bool {
		a, b := fe.edits[i], fe.edits[j]
		if a.start != b.start {
			return a.start < b.start
		}
		// insertions before replacements at the same offset
		ai, bi := a.start == a.end, b.start == b.end
		if ai != bi {
			return ai
		}
		return a.seq < b.seq
	})
	var out []byte
	cur := 0
	for _, e := range fe.edits {
		if e.start < cur {
			die("overlapping edits in %s at offset %d (%q)", fe.name, e.start, e.text)
		}
		out = append(out, fe.src[cur:e.start]...)
		out = append(out, e.text...)
		cur = e.end
	}
	out = append(out, fe.src[cur:]...)
	return out
}

// ---------------------------------------------------------------------------

type stmtList struct {
	list []ast.Stmt
}

func instrumentFile(p *packages.Package, f *ast.File, fe *fileEdits) {
	info := p.TypesInfo
	fset := p.Fset

	// parent map, to find the enclosing list-level statement of an expression
	parents := map[ast.Node]ast.Node{}
	var stack []ast.Node
	ast.Inspect(f, func(n ast.Node) bool {
		if n == nil {
			stack = stack[:len(stack)-1]
			return true
		}
		if len(stack) > 0 {
			parents[n] = stack[len(stack)-1]
		}
		stack = append(stack, n)
		return true
	})
	// listStmt returns the innermost ancestor statement of n that is an element
	// of a statement list (block, case clause, comm clause body).
	listStmt := func(n ast.Node) ast.Stmt {
		for cur := n; cur != nil; cur = parents[cur] {
			st, ok := cur.(ast.Stmt)
			if !ok {
				continue
			}
			switch par := parents[cur].(type) {
			case *ast.BlockStmt:
				return st
			case *ast.CaseClause:
				for _, b := range par.Body {
					if b == st {
						return st
					}
				}
			case *ast.CommClause:
				for _, b := range par.Body {
					if b == st {
						return st
					}
				}
			case *ast.LabeledStmt:
				// keep climbing: insert before the label's statement is not possible
			}
		}
		return nil
	}
	insertBefore := func(n ast.Node, rule string) {
		st := listStmt(n)
		if st == nil {
			return // package-level initialiser etc.: nothing concurrent can be there
		}
		if _, isDefer := st.(*ast.DeferStmt); isDefer {
			return // a yield at defer-registration time means nothing
		}
		fe.add(fset, st.Pos(), st.Pos(), fmt.Sprintf("zzsim.Yield(%q); ", site(p, n.Pos(), rule)))
	}
	insertAfter := func(n ast.Node, rule string) {
		st := listStmt(n)
		if st == nil {
			return
		}
		fe.add(fset, st.End(), st.End(), fmt.Sprintf("; zzsim.Yield(%q)", site(p, n.Pos(), rule)))
	}

	recvExprArg := func(sel *ast.SelectorExpr) (string, bool) {
		// returns the expression text that denotes a *pointer* to the mutex
		s, ok := info.Selections[sel]
		if !ok {
			return "", false
		}
		recvT := s.Recv()
		txt := fe.text(fset, sel.X)
		if len(s.Index()) > 1 {
			// promoted through embedding: x.Lock() where x embeds sync.Mutex.
			// Build the explicit path to the embedded field.
			t := recvT
			if pt, ok := t.Underlying().(*types.Pointer); ok {
				t = pt.Elem()
			}
			path := txt
			for _, idx := range s.Index()[:len(s.Index())-1] {
				st, ok := t.Underlying().(*types.Struct)
				if !ok {
					return "", false
				}
				fld := st.Field(idx)
				path += "." + fld.Name()
				t = fld.Type()
				if pt, ok := t.Underlying().(*types.Pointer); ok {
					t = pt.Elem()
				}
			}
			// final field type decides & or not
			if _, isPtr := finalFieldType(recvT, s.Index()).(*types.Pointer); isPtr {
				return path, true
			}
			return "&" + path, true
		}
		if _, isPtr := recvT.Underlying().(*types.Pointer); isPtr {
			return "(" + txt + ")", true
		}
		return "&" + txt, true
	}

	ast.Inspect(f, func(n ast.Node) bool {
		switch x := n.(type) {
		case *ast.CallExpr:
			sel, ok := x.Fun.(*ast.SelectorExpr)
			if !ok {
				return true
			}
			obj, _ := info.Uses[sel.Sel].(*types.Func)
			if obj == nil {
				return true
			}
			full := obj.FullName()
			switch full {
			case "(*sync.Mutex).Lock", "(*sync.RWMutex).Lock", "(*sync.Mutex).Unlock", "(*sync.RWMutex).Unlock",
				"(*sync.RWMutex).RLock", "(*sync.RWMutex).RUnlock",
				"(*sync.Mutex).TryLock", "(*sync.RWMutex).TryLock", "(*sync.RWMutex).TryRLock":
				arg, ok := recvExprArg(sel)
				if !ok {
					die("%s: cannot rewrite %s", fset.Position(x.Pos()), full)
				}
				name := sel.Sel.Name
				rule := "R1"
				if strings.HasPrefix(name, "Try") {
					rule = "R2"
				}
				var txt string
				if name == "Unlock" || name == "RUnlock" {
					rep.Rules["R1u"]++
					txt = fmt.Sprintf("zzsim.%s(%s)", name, arg)
				} else {
					txt = fmt.Sprintf("zzsim.%s(%s, %q)", name, arg, site(p, x.Pos(), rule))
				}
				fe.add(fset, x.Pos(), x.End(), txt)
				return false
			}
			// R8: singleflight Do / DoChan. The shared function is wrapped so that, when the library
			// runs it on a goroutine of its own (DoChan), that goroutine becomes a scheduler task.
			if full == "(*golang.org/x/sync/singleflight.Group).Do" || full == "(*golang.org/x/sync/singleflight.Group).DoChan" {
				if len(x.Args) == 2 {
					fe.add(fset, x.Args[1].Pos(), x.Args[1].Pos(), fmt.Sprintf("zzsim.AdoptFunc(%q, ", site(p, x.Pos(), "R8")))
					fe.add(fset, x.Args[1].End(), x.Args[1].End(), ")")
				}
				if strings.HasSuffix(full, ".Do") {
					insertAfter(x, "R8")
				}
				return true
			}
			// R6: atomics and config props (call sites only: the wrappers in
			// utils/atomics are not instrumented inside, or every access would yield twice)
			if p.PkgPath != "reservoir/utils/atomics" && isR6(obj, full) {
				rtxt := fe.text(fset, sel.X)
				if strings.HasPrefix(rtxt, "metrics.Global") && rtxt != "metrics.Global.Cache.BytesCached" && rtxt != "metrics.Global.Cache.CacheEntries" {
					// pure statistics: no yield. The reported size and entry count are not (C12 is
					// about them): a read of the real size followed by Set of the metric is a
					// read-modify-write like any other.
					return true
				}
				insertBefore(x, "R6")
				// A read whose value is used inside the same statement (x.Set(x.Get()-d),
				// c.limit.Set(cfg.Limit.Read().Bytes())): the statement-level yield comes before
				// both, so the point between the read and its use gets a yield of its own.
				if nestedValueUse(parents, x) && singleResult(obj) {
					rep.Rules["R6n"]++
					fe.add(fset, x.Pos(), x.Pos(), fmt.Sprintf("zzsim.After(%q, ", site(p, x.Pos(), "R6n")))
					fe.add(fset, x.End(), x.End(), ")")
				}
				return true
			}
			// R7: disk operations in cache and config
			if isR7(p.PkgPath, full) {
				insertBefore(x, "R7")
				return true
			}
			// R9: long computations in the certificate authority (key generation, signing): a real
			// scheduler preempts a goroutine there, so another tunnel's issuance can run in between
			if isR9(p.PkgPath, full) {
				insertBefore(x, "R9")
				return true
			}
		case *ast.GoStmt:
			rewriteGo(p, fe, x)
			// still descend: the body of a go func literal has its own sites
			return true
		case *ast.RangeStmt:
			t := info.TypeOf(x.X)
			if t == nil {
				return true
			}
			switch t.Underlying().(type) {
			case *types.Map:
				s := site(p, x.Pos(), "R4")
				fe.add(fset, x.X.Pos(), x.X.Pos(), fmt.Sprintf("zzsim.MapOrder(%q, ", s))
				fe.add(fset, x.X.End(), x.X.End(), ")")
			case *types.Chan:
				fe.add(fset, x.Body.Lbrace+1, x.Body.Lbrace+1, fmt.Sprintf(" zzsim.Yield(%q);", site(p, x.Pos(), "R5")))
			}
		case *ast.SelectStmt:
			for _, c := range x.Body.List {
				cc := c.(*ast.CommClause)
				fe.add(fset, cc.Colon+1, cc.Colon+1, fmt.Sprintf(" zzsim.Yield(%q);", site(p, cc.Pos(), "R5")))
			}
		case *ast.SendStmt:
			if inSelectComm(parents, x) {
				return true
			}
			insertBefore(x, "R5")
		case *ast.UnaryExpr:
			if x.Op == token.ARROW {
				if inSelectComm(parents, x) {
					return true
				}
				insertAfter(x, "R5")
			}
		}
		return true
	})
}

func finalFieldType(recv types.Type, index []int) types.Type {
	t := recv
	for _, idx := range index[:len(index)-1] {
		if pt, ok := t.Underlying().(*types.Pointer); ok {
			t = pt.Elem()
		}
		st := t.Underlying().(*types.Struct)
		t = st.Field(idx).Type()
	}
	return t.Underlying()
}

func inSelectComm(parents map[ast.Node]ast.Node, n ast.Node) bool {
	for cur := n; cur != nil; cur = parents[cur] {
		if cc, ok := parents[cur].(*ast.CommClause); ok {
			if cc.Comm == cur {
				return true
			}
			return false
		}
		if _, ok := cur.(*ast.BlockStmt); ok {
			return false
		}
	}
	return false
}

func isR6(obj *types.Func, full string) bool {
	if obj.Pkg() == nil {
		return false
	}
	switch obj.Pkg().Path() {
	case "sync/atomic":
		return strings.HasPrefix(full, "(*sync/atomic.")
	case "reservoir/utils/atomics":
		if !strings.HasPrefix(full, "(") {
			return false
		}
		switch obj.Name() {
		case "MarshalJSON", "UnmarshalJSON", "String":
			return false
		}
		return true
	case "reservoir/config":
		if !strings.Contains(full, "ConfigProp") {
			return false
		}
		switch obj.Name() {
		case "Read", "Stage", "CommitStaged", "Overwrite":
			return true
		}
	}
	return false
}

// nestedValueUse reports whether the value of call is an operand of a larger expression that
// ends in another call inside the same statement (and not inside a go, defer or function literal
// boundary, whose operands are evaluated at another time).
func nestedValueUse(parents map[ast.Node]ast.Node, call *ast.CallExpr) bool {
	outerCall := false
	for cur := parents[ast.Node(call)]; cur != nil; cur = parents[cur] {
		switch c := cur.(type) {
		case *ast.GoStmt, *ast.DeferStmt, *ast.FuncLit:
			return false
		case *ast.CallExpr:
			if _, isConv := c.Fun.(*ast.ArrayType); !isConv {
				outerCall = true
			}
		case ast.Stmt:
			return outerCall
		}
	}
	return false
}

func singleResult(f *types.Func) bool {
	sig, ok := f.Type().(*types.Signature)
	return ok && sig.Results().Len() == 1
}

func isR9(pkg, full string) bool {
	if pkg != "reservoir/proxy/certs" {
		return false
	}
	switch full {
	case "crypto/ecdsa.GenerateKey", "crypto/rsa.GenerateKey", "crypto/rand.Int", "crypto/x509.CreateCertificate", "crypto/x509.MarshalPKCS8PrivateKey",
		"crypto/tls.X509KeyPair", "crypto/x509.ParseCertificate":
		return true
	}
	return false
}

func isR7(pkg, full string) bool {
	if pkg != "reservoir/cache" && pkg != "reservoir/config" && pkg != "reservoir/utils/assertedpath" {
		return false
	}
	switch full {
	case "os.Create", "os.CreateTemp", "os.Rename", "os.OpenFile", "os.WriteFile", "os.ReadFile", "os.Open", "os.Remove", "os.RemoveAll", "os.Stat", "os.MkdirAll", "io.Copy",
		"(*os.File).Seek", "(*encoding/json.Encoder).Encode":
		return true
	}
	return false
}

// rewriteGo turns `go f(a, b)` into a scheduler-known task start.
func rewriteGo(p *packages.Package, fe *fileEdits, g *ast.GoStmt) {
	fset := p.Fset
	s := site(p, g.Pos(), "R3")
	call := g.Call
	if lit, ok := call.Fun.(*ast.FuncLit); ok && len(call.Args) == 0 {
		// go func(){...}()  ->  zzsim.Go(site, func(){...})
		fe.add(fset, g.Pos(), lit.Pos(), fmt.Sprintf("zzsim.Go(%q, ", s))
		fe.add(fset, lit.End(), g.End(), ")")
		return
	}
	// general form: evaluate callee and arguments now, call later
	var b strings.Builder
	b.WriteString("{ zzF := ")
	b.WriteString(fe.text(fset, call.Fun))
	args := make([]string, len(call.Args))
	for i, a := range call.Args {
		fmt.Fprintf(&b, "; zzA%d := %s", i, fe.text(fset, a))
		args[i] = fmt.Sprintf("zzA%d", i)
	}
	if call.Ellipsis.IsValid() && len(args) > 0 {
		args[len(args)-1] += "..."
	}
	fmt.Fprintf(&b, "; zzsim.Go(%q, func() { zzF(%s) }) }", s, strings.Join(args, ", "))
	txt := b.String()
	if strings.Contains(txt, "\n") {
		// multi-line argument text: fall back to a closure (late evaluation) but keep lines
		die("%s: multi-line go statement not supported", fset.Position(g.Pos()))
	}
	fe.add(fset, g.Pos(), g.End(), txt)
}
