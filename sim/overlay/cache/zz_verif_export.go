package cache

// Read-only handles for the verification harness (scratch copy only; never in /repo).

import (
	"unsafe"
	"reflect"
	"sort"
	"sync"
	"sync/atomic"
	"time"
)

// VerifKeys lists the stored keys, sorted.
func VerifKeys[M any](c Cache[M]) []CacheKey {
	var out []CacheKey
	switch x := c.(type) {
	case *MemoryCache[M]:
		x.mu.RLock()
		for k := range x.entries {
			out = append(out, k)
		}
		x.mu.RUnlock()
	case *FileCache[M]:
		x.mu.RLock()
		for k := range x.entriesMetadata {
			out = append(out, k)
		}
		x.mu.RUnlock()
	}
	sort.Slice(out, func(i, j int) bool { return out[i].Hex < out[j].Hex })
	return out
}

func VerifByteSize[M any](c Cache[M]) int64 {
	switch x := c.(type) {
	case *MemoryCache[M]:
		return x.byteSize.Get()
	case *FileCache[M]:
		return x.byteSize.Get()
	}
	return -1
}

func VerifMaxSize[M any](c Cache[M]) int64 {
	switch x := c.(type) {
	case *MemoryCache[M]:
		return x.maxCacheSize.Get()
	case *FileCache[M]:
		return x.maxCacheSize.Get()
	}
	return -1
}

// VerifMemoryCap reads MemoryCache.memoryCap whatever its representation in the tree under
// test is (a plain int64 or an atomic wrapper with Get()).
func VerifMemoryCap[M any](c Cache[M]) int64 {
	x, ok := c.(*MemoryCache[M])
	if !ok {
		return -1
	}
	f := reflect.ValueOf(x).Elem().FieldByName("memoryCap")
	if !f.IsValid() {
		return -1
	}
	if f.Kind() == reflect.Int64 {
		return f.Int()
	}
	// atomics.Int64{val *atomic.Int64}
	if f.Kind() == reflect.Struct && f.NumField() == 1 {
		p := f.Field(0)
		if p.Kind() == reflect.Pointer && !p.IsNil() {
			ai := (*atomic.Int64)(p.UnsafePointer())
			return ai.Load()
		}
	}
	return -1
}

func VerifInterval[M any](c Cache[M]) time.Duration {
	switch x := c.(type) {
	case *MemoryCache[M]:
		return x.janitor.interval
	case *FileCache[M]:
		return x.janitor.interval
	}
	return -1
}

func VerifLock[M any](c Cache[M], key CacheKey) *sync.RWMutex {
	switch x := c.(type) {
	case *MemoryCache[M]:
		return getLock(x.locks, key)
	case *FileCache[M]:
		return getLock(x.locks, key)
	}
	return nil
}

func VerifShardIndex(key CacheKey, shards int) int {
	l := make([]sync.RWMutex, shards)
	p := getLock(l, key)
	for i := range l {
		if &l[i] == p {
			return i
		}
	}
	return -1
}

// VerifDrainIntervalChan empties the janitor's interval channel (teardown only:
// a notification goroutine blocked on it after stop() would otherwise outlive the run).
// VerifDrainIntervalChan empties every channel the janitor owns (the interval-change channel, and
// whatever channel a changed tree may have added) and returns how many values were waiting. A
// notification goroutine blocked on such a channel after the janitor has gone is thereby released,
// so that the simulation's bubble can end; what the values mean is judged elsewhere.
func VerifDrainIntervalChan[M any](c Cache[M]) int {
	var j *cacheJanitor[M]
	switch x := c.(type) {
	case *MemoryCache[M]:
		j = x.janitor
	case *FileCache[M]:
		j = x.janitor
	}
	n := 0
	if j == nil {
		return 0
	}
	v := reflect.ValueOf(j).Elem()
	for i := 0; i < v.NumField(); i++ {
		f := v.Field(i)
		if f.Kind() != reflect.Chan || f.IsNil() || f.Type().ChanDir()&reflect.RecvDir == 0 {
			continue
		}
		ch := reflect.NewAt(f.Type(), unsafe.Pointer(f.UnsafeAddr())).Elem()
		for {
			if _, ok := ch.TryRecv(); !ok {
				break
			}
			n++
		}
	}
	return n
}

type VerifEntryInfo struct {
	Size       int64
	LastAccess time.Time
	Expires    time.Time
}

// VerifPeek reads the metadata of every entry without touching LastAccess.
func VerifPeek[M any](c Cache[M]) map[string]VerifEntryInfo {
	out := map[string]VerifEntryInfo{}
	switch x := c.(type) {
	case *MemoryCache[M]:
		x.mu.RLock()
		for k, e := range x.entries {
			out[k.Hex] = VerifEntryInfo{e.meta.Size, e.meta.LastAccess, e.meta.Expires}
		}
		x.mu.RUnlock()
	case *FileCache[M]:
		x.mu.RLock()
		for k, m := range x.entriesMetadata {
			out[k.Hex] = VerifEntryInfo{m.Size, m.LastAccess, m.Expires}
		}
		x.mu.RUnlock()
	}
	return out
}
