package cache

// Read-only handles for the verification harness (scratch copy only; never in /repo).

import (
	"sync"
	"time"
)

func VerifByteSize[M any](c Cache[M]) int64 {
	switch x := c.(type) {
	case *MemoryCache[M]:
		return x.byteSize.Get()
	case *FileCache[M]:
		return x.byteSize.Get()
	}
	return -1
}

func VerifMaxSize[M any](c Cache[M]) int64 {
	switch x := c.(type) {
	case *MemoryCache[M]:
		return x.maxCacheSize.Get()
	case *FileCache[M]:
		return x.maxCacheSize.Get()
	}
	return -1
}

func VerifMemoryCap[M any](c Cache[M]) int64 {
	if x, ok := c.(*MemoryCache[M]); ok {
		return x.memoryCap
	}
	return -1
}

func VerifInterval[M any](c Cache[M]) time.Duration {
	switch x := c.(type) {
	case *MemoryCache[M]:
		return x.janitor.interval
	case *FileCache[M]:
		return x.janitor.interval
	}
	return -1
}

func VerifLock[M any](c Cache[M], key CacheKey) *sync.RWMutex {
	switch x := c.(type) {
	case *MemoryCache[M]:
		return getLock(x.locks, key)
	case *FileCache[M]:
		return getLock(x.locks, key)
	}
	return nil
}

func VerifShardIndex(key CacheKey, shards int) int {
	l := make([]sync.RWMutex, shards)
	p := getLock(l, key)
	for i := range l {
		if &l[i] == p {
			return i
		}
	}
	return -1
}

// VerifDrainIntervalChan empties the janitor's interval channel (teardown only:
// a notification goroutine blocked on it after stop() would otherwise outlive the run).
func VerifDrainIntervalChan[M any](c Cache[M]) int {
	var j *cacheJanitor[M]
	switch x := c.(type) {
	case *MemoryCache[M]:
		j = x.janitor
	case *FileCache[M]:
		j = x.janitor
	}
	n := 0
	if j == nil {
		return 0
	}
	for {
		select {
		case <-j.intervalChanged:
			n++
		default:
			return n
		}
	}
}
