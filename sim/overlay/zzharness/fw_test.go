package zzharness

// Framework: scenario registry, one-run executor (bubble + recover), batch
// worker, strict replay, minimiser, worker summary. See /verif/DESIGN.md §2.

import (
	"sync/atomic"
	"encoding/json"
	"fmt"
	"log/slog"
	"math/rand/v2"
	"os"
	"path/filepath"
	"regexp"
	"runtime"
	"runtime/debug"
	"sort"
	"strconv"
	"strings"
	"sync"
	"testing"
	"testing/synctest"
	"time"

	"reservoir/zzsim"
)

type Violation struct {
	Rule    string `json:"rule"`
	Subject string `json:"subject"`
	Msg     string `json:"msg"`
	Step    int    `json:"step"`
}

type Result struct {
	Violations []Violation    `json:"violations,omitempty"`
	End        string         `json:"end"` // "", stuck, steps, deadline, diverged
	Infra      string         `json:"infra,omitempty"`
	Steps      int            `json:"steps"`
	SimNs      int64          `json:"sim_ns"`
	Faults     map[string]int `json:"faults,omitempty"`
	Probes     map[string]int `json:"probes,omitempty"`
	Trace      uint64         `json:"trace"`
	Decisions  []string       `json:"decisions,omitempty"`
	Pairs      map[string]int `json:"-"`
	Nontrivial bool           `json:"nontrivial"`
	Evals      int            `json:"evals"` // number of individual cases judged inside this run (>=1)
	Notes      []string       `json:"notes,omitempty"`
}

func newResult() *Result {
	return &Result{Faults: map[string]int{}, Probes: map[string]int{}, Pairs: map[string]int{}, Evals: 1}
}

var resMu sync.Mutex

// fault / probe: counters that tasks bump while the world runs (several tasks at once in race mode)
func (r *Result) fault(k string) { resMu.Lock(); r.Faults[k]++; resMu.Unlock() }
func (r *Result) probe(k string) { resMu.Lock(); r.Probes[k]++; resMu.Unlock() }

func (r *Result) violate(rule, subject, format string, a ...any) {
	resMu.Lock()
	defer resMu.Unlock()
	if len(r.Violations) >= 8 {
		return
	}
	r.Violations = append(r.Violations, Violation{Rule: rule, Subject: subject, Msg: fmt.Sprintf(format, a...), Step: r.Steps})
}

type Ctl struct {
	Seed   uint64
	Replay []string // nil: seeded schedule
	Guided bool
}

type Scenario struct {
	Name   string
	Gen    func(r *rand.Rand, tier string) any
	Decode func(b []byte) (any, error)
	Run    func(t *testing.T, plan any, ctl Ctl) *Result
	Shrink func(plan any) []any
}

var scenarios = map[string]*Scenario{}

func register(s *Scenario) { scenarios[s.Name] = s }

func decodeInto[T any](b []byte) (any, error) {
	var p T
	if err := json.Unmarshal(b, &p); err != nil {
		return nil, err
	}
	return &p, nil
}

// ---------------------------------------------------------------------------
// one run

var runCounter int
var runBase string

func newRunDir() string {
	if runBase == "" {
		base := "/dev/shm"
		if st, err := os.Stat(base); err != nil || !st.IsDir() {
			base = os.TempDir()
		}
		runBase = filepath.Join(base, fmt.Sprintf("verif-run-%d", os.Getpid()))
	}
	runCounter++
	d := filepath.Join(runBase, "r"+strconv.Itoa(runCounter))
	os.RemoveAll(d)
	if err := os.MkdirAll(d, 0o755); err != nil {
		panic(err)
	}
	return d
}

// bubble runs fn inside a synctest bubble and converts a bubble deadlock or a
// harness panic into res.Infra.
func bubble(t *testing.T, res *Result, fn func()) {
	// the extra t.Run level keeps a failing bubble (the race detector fails the test it reports
	// in) from ending TestSim itself
	t.Run("w", func(t *testing.T) {
		defer func() {
			if r := recover(); r != nil {
				res.Infra = fmt.Sprintf("bubble: %v", r)
				if os.Getenv("VERIF_DEBUG") != "" {
					buf := make([]byte, 1<<20)
					n := runtime.Stack(buf, true)
					fmt.Fprintf(os.Stderr, "%s\n", buf[:n])
				}
			}
		}()
		synctest.Test(t, func(t *testing.T) {
			defer func() {
				if r := recover(); r != nil {
					res.Infra = fmt.Sprintf("harness panic: %v\n%s", r, debug.Stack())
					if s := zzsim.Active(); s != nil {
						s.Drain(func(string) bool { return true })
						s.Detach()
					}
				}
			}()
			fn()
		})
	})
}

// finishSched copies scheduler statistics into the result.
func finishSched(res *Result, s *zzsim.Sched, end string) {
	res.End = end
	res.Steps = s.Steps
	res.SimNs = int64(time.Since(s.Start))
	res.Trace = s.TraceHash()
	res.Decisions = s.Decisions
	for k, v := range s.TracePairs {
		res.Pairs[k] += v
	}
	if len(s.Unknown) > 0 {
		res.Infra = "zzsim calls from unregistered goroutines at: " + strings.Join(s.Unknown, ", ")
	}
	if end == "diverged" {
		res.Infra = "replay diverged: " + s.Diverged
	}
}

// raceOverlap > 1 switches every world to overlap-window scheduling (C15).
var raceOverlap = int(envInt("VERIF_OVERLAP", 0))

func racePol(pol zzsim.Policy) zzsim.Policy {
	if raceOverlap > 1 {
		pol.Overlap = raceOverlap
		pol.Kind = "uniform"
	}
	return pol
}

func planSeedRng(seed uint64) *rand.Rand { return rand.New(rand.NewPCG(seed, 1)) }

// Watchdog: a run takes milliseconds to a few seconds. One that has not ended after a minute of real
// time has a task that neither blocks nor reaches a yield point - code under test that loops for
// ever - and nothing inside the process can end it. The process says so and exits; for properties
// that forbid unanswered requests the check treats that like a process abort (fresh-process replay,
// shrinking from outside).
var runStartedNs atomic.Int64

func startWatchdog() {
	go func() {
		// "Not moving" is judged by the scheduler's step counter, not by the age of the run: on a
		// loaded machine a long run of the race build (a thousand certificates) takes more than a
		// minute and is fine as long as it keeps taking steps. (Thorough run 9 lost a C15 worker to
		// the earlier age-only rule.) Worlds without a scheduler take no steps: for them the age of
		// the run is all there is.
		lastProgress, lastChange := zzsim.Progress.Load(), time.Now()
		for {
			time.Sleep(time.Second)
			st := runStartedNs.Load()
			if st == 0 {
				lastChange = time.Now()
				continue
			}
			if p := zzsim.Progress.Load(); p != lastProgress {
				lastProgress, lastChange = p, time.Now()
			}
			since := lastChange
			if started := time.Unix(0, st); started.After(since) {
				since = started
			}
			if time.Since(since) > 60*time.Second {
				fmt.Fprintln(os.Stderr, "fatal error: zzharness watchdog: the run has taken no scheduling step for 60 s of real time (a task neither blocks nor yields)")
				os.Exit(3)
			}
		}
	}()
}

func runScenario(t *testing.T, sc *Scenario, plan any, ctl Ctl) *Result {
	runStartedNs.Store(time.Now().UnixNano())
	defer runStartedNs.Store(0)
	return runScenarioInner(t, sc, plan, ctl)
}

func runScenarioInner(t *testing.T, sc *Scenario, plan any, ctl Ctl) *Result {
	cwd, _ := os.Getwd()
	defer os.Chdir(cwd)
	if raceOverlap > 1 {
		collectRaceReports() // discard anything written between runs
	}
	res := sc.Run(t, plan, ctl)
	if raceOverlap > 1 {
		// functional oracles are off in race mode: outcomes inside a window are not replayable
		res.Violations = nil
		for _, rr := range collectRaceReports() {
			if rr.Harness {
				res.Infra = "race report without a reservoir frame (harness race): " + rr.Excerpt
				continue
			}
			res.violate("C15.a", rr.Pair, "%s", rr.Excerpt)
		}
		res.Nontrivial = true
	}
	return res
}

// ---------------------------------------------------------------------------
// replay files

type ReplayFile struct {
	Property  string          `json:"property"`
	Scenario  string          `json:"scenario"`
	Seed      uint64          `json:"seed"`
	Tier      string          `json:"tier"`
	Plan      json.RawMessage `json:"plan"`
	Decisions []string        `json:"decisions"`
	Violation Violation       `json:"violation"`
	Minimised bool            `json:"minimised"`
	OrigSteps int             `json:"orig_steps"`
	Note      string          `json:"note,omitempty"`
}

func sameClass(a, b Violation) bool {
	return a.Rule == b.Rule && subjectClass(a.Subject) == subjectClass(b.Subject)
}

var digitsRe = regexp.MustCompile(`[0-9]+`)

// subjectClass abstracts numbers so that a shrunk plan (smaller sizes, other
// versions) still counts as the same violation class.
func subjectClass(s string) string { return digitsRe.ReplaceAllString(s, "N") }

func findClass(res *Result, v Violation) *Violation {
	for i := range res.Violations {
		if sameClass(res.Violations[i], v) {
			return &res.Violations[i]
		}
	}
	return nil
}

// minimise shrinks plan and schedule while the same violation class persists.
func minimise(t *testing.T, sc *Scenario, plan any, seed uint64, decisions []string, v Violation, budget int) (any, []string, Violation, int) {
	tries := 0
	try := func(p any, dec []string) (*Result, *Violation) {
		tries++
		r := runScenario(t, sc, p, Ctl{Seed: seed, Replay: dec, Guided: true})
		if r.Infra != "" {
			return r, nil
		}
		return r, findClass(r, v)
	}
	// first: does guided replay of the same plan reproduce it?
	if r, got := try(plan, decisions); got != nil {
		decisions = r.Decisions
		v = *got
	} else {
		return plan, decisions, v, tries
	}
	// alternate plan shrinking and schedule shrinking until neither makes progress
	for round := 0; round < 6 && tries < budget; round++ {
		progressed := false
		if sc.Shrink != nil {
			progress := true
			for progress && tries < budget {
				progress = false
				for _, cand := range sc.Shrink(plan) {
					if tries >= budget {
						break
					}
					if r, got := try(cand, decisions); got != nil {
						plan, decisions, v = cand, r.Decisions, *got
						progress, progressed = true, true
						break
					}
				}
			}
		}
		// schedule: truncate, then remove decisions chunk-wise (fewer context switches)
		for tries < budget && len(decisions) > 0 {
			cut := decisions[:len(decisions)/2]
			r, got := try(plan, cut)
			if got == nil || len(r.Decisions) >= len(decisions) {
				break
			}
			decisions, v = r.Decisions, *got
			progressed = true
		}
		chunk := len(decisions) / 4
		for chunk >= 1 && tries < budget {
			changed := false
			for i := 0; i+chunk <= len(decisions) && tries < budget; i += chunk {
				cand := append(append([]string{}, decisions[:i]...), decisions[i+chunk:]...)
				r, got := try(plan, cand)
				if got != nil && len(r.Decisions) < len(decisions) {
					decisions, v = r.Decisions, *got
					changed, progressed = true, true
				}
			}
			if !changed {
				chunk /= 2
			}
		}
		if !progressed {
			break
		}
	}
	return plan, decisions, v, tries
}

// ---------------------------------------------------------------------------
// worker

type Summary struct {
	Scenarios   []string         `json:"scenarios"`
	Runs        int              `json:"runs"`
	Evals       int              `json:"evals"`
	Steps       int64            `json:"steps"`
	SimNs       float64          `json:"sim_ns"` // a sum over runs that may each cover years (certificates): float, an int64 of nanoseconds overflows
	WallS       float64          `json:"wall_s"`
	Faults      map[string]int   `json:"faults"`
	Probes      map[string]int   `json:"probes"`
	Ends        map[string]int   `json:"ends"`
	Traces      []string         `json:"traces"`            // distinct schedule hashes (all runs)
	NontrivTr   []string         `json:"nontrivial_traces"` // distinct (plan,schedule) hashes among runs with a probe hit
	Pairs       []string         `json:"pairs"`
	Samples     []map[string]any `json:"samples"`
	Violations  []map[string]any `json:"violations"`
	OtherRules  map[string]int   `json:"other_rule_hits"`
	Infra       []string         `json:"infra"`
	FirstSeed   uint64           `json:"first_seed"`
	LastSeed    uint64           `json:"last_seed"`
	Inconclusiv int              `json:"inconclusive"`
}

func envInt(name string, def int64) int64 {
	if v := os.Getenv(name); v != "" {
		n, err := strconv.ParseInt(v, 10, 64)
		if err == nil {
			return n
		}
	}
	return def
}

func hashBytes(b []byte) uint64 {
	h := uint64(14695981039346656037)
	for _, c := range b {
		h = (h ^ uint64(c)) * 0x100000001b3
	}
	return h
}

func ruleMatches(rule string, prefixes []string) bool {
	for _, p := range prefixes {
		if strings.HasPrefix(rule, p) {
			return true
		}
	}
	return false
}

func TestSim(t *testing.T) {
	mode := os.Getenv("VERIF_MODE")
	if mode == "" {
		t.Skip("VERIF_MODE not set")
	}
	slog.SetDefault(slog.New(slog.DiscardHandler))
	// Unbounded recursion in the code under test ends in the runtime's "stack overflow" abort either
	// way; with the default limit of 1 GB per goroutine it takes minutes to get there, with 32 MB
	// (far more than any run needs) a second.
	debug.SetMaxStack(32 << 20)
	startWatchdog()
	if os.Getenv("VERIF_DEBUG") != "" {
		fmt.Fprintf(os.Stderr, "zzsim: goroutine id offset %d\n", zzsim.GoidOffset())
	}
	defer func() {
		if runBase != "" {
			os.RemoveAll(runBase)
		}
	}()
	switch mode {
	case "batch":
		batch(t)
	case "replay":
		replay(t)
	case "trace":
		traceMode(t)
	case "one":
		seed := uint64(envInt("VERIF_SEED_EXACT", 0))
		sc := scenarios[os.Getenv("VERIF_SCEN")]
		currentSeed = seed
		plan := sc.Gen(planSeedRng(seed), os.Getenv("VERIF_TIER"))
		res := runScenario(t, sc, plan, Ctl{Seed: seed})
		pj, _ := json.MarshalIndent(plan, "", " ")
		rj, _ := json.MarshalIndent(res, "", " ")
		fmt.Printf("PLAN %s\nRESULT %s\n", pj, rj)
	default:
		t.Fatalf("unknown VERIF_MODE %q", mode)
	}
}

func batch(t *testing.T) {
	scNames := strings.Split(os.Getenv("VERIF_SCEN"), ",")
	prop := os.Getenv("VERIF_PROP")
	rules := strings.Split(os.Getenv("VERIF_RULES"), ",")
	tier := os.Getenv("VERIF_TIER")
	base := uint64(envInt("VERIF_SEED", 1))
	offset := uint64(envInt("VERIF_OFFSET", 0))
	stride := uint64(envInt("VERIF_STRIDE", 1))
	count := envInt("VERIF_COUNT", 100)
	budget := time.Duration(envInt("VERIF_BUDGET_MS", 60000)) * time.Millisecond
	out := os.Getenv("VERIF_OUT")
	replayDir := os.Getenv("VERIF_REPLAY_DIR")
	minBudget := int(envInt("VERIF_MIN_BUDGET", 200))
	trackCurrent := os.Getenv("VERIF_TRACK_CURRENT")

	sum := &Summary{Scenarios: scNames, Faults: map[string]int{}, Probes: map[string]int{}, Ends: map[string]int{}, OtherRules: map[string]int{}}
	traces := map[uint64]bool{}
	nontriv := map[uint64]bool{}
	pairs := map[string]bool{}
	seenClass := map[string]bool{}
	start := time.Now()

	for i := int64(0); i < count; i++ {
		if time.Since(start) > budget {
			break
		}
		idx := offset + uint64(i)*stride
		seed := base<<32 + idx
		sc := scenarios[scNames[int(idx)%len(scNames)]]
		if sc == nil {
			t.Fatalf("unknown scenario in %v", scNames)
		}
		currentSeed = seed
		plan := sc.Gen(planSeedRng(seed), tier)
		if trackCurrent != "" {
			// what this process is about to run: if the code under test aborts the process (a runtime
			// fatal error cannot be recovered), the check knows which run did it
			cj, _ := json.Marshal(plan)
			cb, _ := json.Marshal(ReplayFile{Property: prop, Scenario: sc.Name, Seed: seed, Tier: tier, Plan: cj})
			os.WriteFile(trackCurrent, cb, 0o644)
		}
		res := runScenario(t, sc, plan, Ctl{Seed: seed})
		if sum.Runs == 0 {
			sum.FirstSeed = seed
		}
		sum.LastSeed = seed
		sum.Runs++
		sum.Evals += res.Evals
		sum.Steps += int64(res.Steps)
		sum.SimNs += float64(res.SimNs)
		sum.Ends[res.End]++
		for k, v := range res.Faults {
			sum.Faults[k] += v
		}
		for k, v := range res.Probes {
			sum.Probes[k] += v
		}
		for k := range res.Pairs {
			pairs[k] = true
		}
		pj, _ := json.Marshal(plan)
		th := res.Trace ^ hashBytes(pj)
		traces[th] = true
		if res.Nontrivial {
			nontriv[th] = true
		}
		if len(sum.Samples) < 3 || (res.Nontrivial && len(sum.Samples) < 5) {
			dec := res.Decisions
			if len(dec) > 60 {
				dec = append(append([]string{}, dec[:60]...), "...")
			}
			sum.Samples = append(sum.Samples, map[string]any{"seed": seed, "scenario": sc.Name, "plan": json.RawMessage(pj), "schedule_prefix": dec, "steps": res.Steps, "probes": res.Probes, "faults": res.Faults})
		}
		if res.Infra != "" {
			sum.Infra = append(sum.Infra, fmt.Sprintf("seed %d scen %s: %s", seed, sc.Name, res.Infra))
			if len(sum.Infra) > 5 {
				break
			}
			continue
		}
		for _, v := range res.Violations {
			if !ruleMatches(v.Rule, rules) {
				sum.OtherRules[v.Rule]++
				continue
			}
			cls := v.Rule + "|" + subjectClass(v.Subject)
			if seenClass[cls] {
				continue
			}
			seenClass[cls] = true
			mp, md, mv, tries := minimise(t, sc, plan, seed, res.Decisions, v, minBudget)
			mpj, _ := json.Marshal(mp)
			rf := ReplayFile{Property: prop, Scenario: sc.Name, Seed: seed, Tier: tier, Plan: mpj, Decisions: md, Violation: mv, Minimised: true, OrigSteps: res.Steps,
				Note: fmt.Sprintf("minimised with %d re-executions; original plan %d bytes, minimised %d bytes; original schedule %d decisions, minimised %d", tries, len(pj), len(mpj), len(res.Decisions), len(md))}
			path := ""
			if replayDir != "" {
				os.MkdirAll(replayDir, 0o755)
				path = filepath.Join(replayDir, fmt.Sprintf("%s-%s-%d.json", prop, strings.ReplaceAll(mv.Rule, ".", "_"), seed))
				b, _ := json.MarshalIndent(rf, "", " ")
				os.WriteFile(path, b, 0o644)
			}
			sum.Violations = append(sum.Violations, map[string]any{"seed": seed, "scenario": sc.Name, "rule": mv.Rule, "subject": mv.Subject, "msg": mv.Msg, "replay": path, "orig_subject": v.Subject})
		}
	}
	sum.WallS = time.Since(start).Seconds()
	for k := range traces {
		sum.Traces = append(sum.Traces, strconv.FormatUint(k, 16))
	}
	for k := range nontriv {
		sum.NontrivTr = append(sum.NontrivTr, strconv.FormatUint(k, 16))
	}
	for k := range pairs {
		sum.Pairs = append(sum.Pairs, k)
	}
	sort.Strings(sum.Pairs)
	b, _ := json.Marshal(sum)
	if out != "" {
		if err := os.WriteFile(out, b, 0o644); err != nil {
			t.Fatal(err)
		}
	} else {
		fmt.Println(string(b))
	}
}

// replay executes a replay file strictly and reports what happened.
// Output (stdout, one JSON line): {"reproduced":bool,"violation":...,"infra":...}
func replay(t *testing.T) {
	path := os.Getenv("VERIF_REPLAY")
	b, err := os.ReadFile(path)
	if err != nil {
		t.Fatal(err)
	}
	var rf ReplayFile
	if err := json.Unmarshal(b, &rf); err != nil {
		t.Fatal(err)
	}
	sc := scenarios[rf.Scenario]
	if sc == nil {
		t.Fatalf("unknown scenario %q", rf.Scenario)
	}
	plan, err := sc.Decode(rf.Plan)
	if err != nil {
		t.Fatal(err)
	}
	// inside an overlap window the tasks really run at the same time, so a race-mode schedule is
	// followed as far as it applies (guided), not demanded step by step
	res := runScenario(t, sc, plan, Ctl{Seed: rf.Seed, Replay: rf.Decisions, Guided: raceOverlap > 1})
	out := map[string]any{"infra": res.Infra, "end": res.End, "steps": res.Steps, "violations": res.Violations}
	got := findClass(res, rf.Violation)
	out["reproduced"] = got != nil && res.Infra == ""
	if got != nil {
		out["violation"] = got
	}
	ob, _ := json.Marshal(out)
	fmt.Println("REPLAY-RESULT " + string(ob))
}

// traceMode prints, for each seed, the outcome and trace hash: used by the
// determinism self-test (same seeds in many processes must print the same).
func traceMode(t *testing.T) {
	scNames := strings.Split(os.Getenv("VERIF_SCEN"), ",")
	tier := os.Getenv("VERIF_TIER")
	base := uint64(envInt("VERIF_SEED", 1))
	count := envInt("VERIF_COUNT", 20)
	for i := int64(0); i < count; i++ {
		seed := base<<32 + uint64(i)
		sc := scenarios[scNames[int(i)%len(scNames)]]
		currentSeed = seed
		plan := sc.Gen(planSeedRng(seed), tier)
		res := runScenario(t, sc, plan, Ctl{Seed: seed})
		vb, _ := json.Marshal(res.Violations)
		pb, _ := json.Marshal(res.Probes)
		fmt.Printf("TRACE %s %d end=%q steps=%d sim=%d trace=%x dec=%x viol=%x probes=%x infra=%q\n", sc.Name, seed, res.End, res.Steps, res.SimNs, res.Trace,
			hashBytes([]byte(strings.Join(res.Decisions, "|"))), hashBytes(vb), hashBytes(pb), res.Infra)
	}
}

// blockedHandlers: notification tasks (started by the event package) that are blocked for good
// inside the cleanup task's change handler, i.e. on its channel.
func blockedHandlers(s *zzsim.Sched) []string {
	var out []string
	for _, b := range s.BlockedOutside("cache/cache_janitor.go") {
		if strings.HasPrefix(b, "go:utils/event/") {
			out = append(out, b)
		}
	}
	return out
}
