package zzharness

// C11: every tunnel gets a valid host-specific certificate from the configured CA.

import (
	"bytes"
	"fmt"
	"math/rand/v2"
	"net"
	"reservoir/zzsim"
	"strings"
	"time"
)

var certHosts = []string{
	"origin.test", "Origin.TEST", "xn--bcher-kva.example", "a-rather-long-label-aaaaaaaaaaaaaaaaaaaaaaaaaaaaaaaaaaaaaaaaaaaaaa.example.org",
	"dot.origin.test.", "origin.test.", // the root label written out: the same host as without it
	"10.1.2.3", "192.0.2.255", "[2001:db8::1]", "[::1]", "localhost", "sub.domain.origin.test", "1.example", "a.b.c.d.e.f.example",
}
var certPorts = []string{"443", "443", "8443", "1", "65535"}

func genCertsPlan(r *rand.Rand) *ProxyPlan {
	p := &ProxyPlan{Family: "certs"}
	p.Backend = "memory"
	p.Shards = 4
	p.MaxSize = 1 << 40
	p.IntervalMs = 1000 * 3600 * 1000
	p.Transport = "connect"
	p.DefaultAgeS = 60
	p.Pol = genPolicy(r, false)
	p.Pol.MaxSteps = 20000
	p.Res = []PRes{{Host: "*", Path: "/", Wild: true, Size: 20, CC: []string{"no-store"}}}
	h := int64(3600 * 1000)
	times := []int64{0, h, 239*h + 59*60*1000, 240*h - 1000, 240 * h, 240*h + 1000, 241 * h, 480 * h, 480*h + 2000, 700 * h}
	nhosts := 1 + r.IntN(2)
	var hosts []string
	for i := 0; i < nhosts; i++ {
		hosts = append(hosts, certHosts[r.IntN(len(certHosts))]+":"+certPorts[r.IntN(len(certPorts))])
	}
	if r.IntN(300) == 0 {
		// many hosts: one client opens a tunnel to each of several hundred distinct hosts, one after
		// the other, then comes back to the first ones (whatever the proxy keeps per host, and however
		// it bounds that, every tunnel is owed its own host's certificate)
		n := []int{300, 600, 1100}[r.IntN(3)]
		var walk []PReq
		for i := 0; i < n; i++ {
			walk = append(walk, PReq{Res: 0, Target: "/m", HostHdr: fmt.Sprintf("h%d.many.example:443", i)})
		}
		for i := 0; i < 6; i++ {
			walk = append(walk, PReq{Res: 0, Target: "/m", HostHdr: fmt.Sprintf("h%d.many.example:443", i*(n/7))})
		}
		p.Clients = [][]PReq{walk}
		p.Pol = zzsim.Policy{Kind: "sticky", SwitchP: 0.02, Mute: "R6,R7", MaxSteps: 400000}
		return p
	}
	for _, h := range append([]string{}, hosts...) {
		if name, port, ok := strings.Cut(h, ".:"); ok {
			hosts = append(hosts, name+":"+port) // the same host without the dot
		}
	}
	// one client walks through time; optionally a burst of first tunnels at some instant
	var walk []PReq
	k := 2 + r.IntN(5)
	idx := r.Perm(len(times))[:k]
	sortInts(idx)
	for _, ti := range idx {
		q := PReq{Res: 0, Target: "/x", HostHdr: hosts[r.IntN(len(hosts))], AtMs: times[ti]}
		if r.IntN(4) == 0 {
			// the tunnel is granted, the TLS handshake starts a little later
			q.HelloDelayMs = []int64{500, 2000, 5000}[r.IntN(3)]
		}
		walk = append(walk, q)
	}
	p.Clients = [][]PReq{walk}
	if r.IntN(2) == 0 {
		burstAt := times[r.IntN(len(times))] + []int64{0, 0, 500}[r.IntN(3)]
		bh := hosts[r.IntN(len(hosts))]
		if r.IntN(2) == 0 {
			bh = "burst-" + itoa(r.IntN(1000)) + ".example:443"
		}
		// first tunnels to one new host, or to several different new hosts, opening at once
		bhs := []string{bh}
		if r.IntN(2) == 0 {
			bhs = append(bhs, "burst-"+itoa(r.IntN(1000))+"-b.example:443")
			if r.IntN(2) == 0 {
				bhs = append(bhs, []string{"10.9.8.7:443", "[2001:db8::2]:8443", "192.0.2.9:1"}[r.IntN(3)])
			}
		}
		n := 2 + r.IntN(7)
		for i := 0; i < n; i++ {
			p.Clients = append(p.Clients, []PReq{{Res: 0, Target: "/b", HostHdr: bhs[i%len(bhs)], AtMs: burstAt}})
		}
	}
	return p
}

func sortInts(a []int) {
	for i := 1; i < len(a); i++ {
		for j := i; j > 0 && a[j] < a[j-1]; j-- {
			a[j], a[j-1] = a[j-1], a[j]
		}
	}
}

func judgeCerts(w *proxyWorld, res *Result) {
	type tun struct {
		ex   *Exch
		host string
	}
	byHost := map[string][]*Exch{}
	var order []string
	for _, ex := range w.exch {
		if ex.ConnHost == "" || ex.ConnReused {
			continue
		}
		res.Evals++
		hostport := ex.ConnHost
		host, _, err := net.SplitHostPort(hostport)
		if err != nil {
			host = hostport
		}
		desc := fmt.Sprintf("CONNECT %s at +%v", hostport, ex.SendT.Sub(w.start).Round(time.Second))
		kind := "dns"
		if ip := net.ParseIP(host); ip != nil {
			kind = "ipv4"
			if strings.Contains(host, ":") {
				kind = "ipv6"
			}
		}
		if ex.TunnelFail != "" {
			res.violate("C11.a", "handshake-failed "+kind+": "+failClass(ex.TunnelFail), "%s: %s", desc, ex.TunnelFail)
			continue
		}
		if ex.Leaf == nil {
			continue
		}
		l := ex.Leaf
		// exactly that host
		names := append([]string{}, l.DNSNames...)
		for _, ip := range l.IPAddresses {
			names = append(names, ip.String())
		}
		wantName := host
		if ip := net.ParseIP(host); ip != nil {
			wantName = ip.String()
		}
		if len(names) != 1 || !strings.EqualFold(names[0], wantName) {
			res.violate("C11.a", "wrong-names "+kind, "%s: certificate names %v, expected exactly [%s]", desc, names, wantName)
		}
		now := ex.TunnelUpT
		if now.Before(l.NotBefore) || now.After(l.NotAfter) {
			res.violate("C11.a", "outside-validity "+kind, "%s: certificate valid %v..%v, presented at %v", desc, l.NotBefore.Sub(w.start), l.NotAfter.Sub(w.start), now.Sub(w.start))
		}
		if err := l.CheckSignatureFrom(w.caCert); err != nil {
			res.violate("C11.a", "not-signed-by-ca "+kind, "%s: %v", desc, err)
		}
		if _, ok := byHost[host]; !ok {
			order = append(order, host)
		}
		byHost[host] = append(byHost[host], ex)
	}
	// C11.b / C11.c: reuse while valid, replacement after expiry
	for _, host := range order {
		ts := byHost[host]
		for i, t := range ts {
			overlaps := func(a, b *Exch) bool { return a.TunnelOpenSeq < b.TunnelUpSeq && b.TunnelOpenSeq < a.TunnelUpSeq }
			sequential := true
			var validEarlier []*Exch
			for j := range ts {
				if j != i && overlaps(ts[j], t) {
					sequential = false // any tunnel to this host being set up at the same time, earlier or later in the log
				}
			}
			for j := 0; j < i; j++ {
				if ts[j].Leaf != nil && !t.TunnelUpT.After(ts[j].Leaf.NotAfter) && ts[j].TunnelUpSeq < t.TunnelOpenSeq {
					validEarlier = append(validEarlier, ts[j])
				}
			}
			if !sequential {
				res.Probes["concurrent_first_tunnels"]++
				continue
			}
			if i == 0 {
				continue
			}
			desc := fmt.Sprintf("CONNECT %s at +%v", t.ConnHost, t.SendT.Sub(w.start).Round(time.Second))
			if len(validEarlier) > 0 {
				found := false
				for _, e := range validEarlier {
					if bytes.Equal(e.Leaf.Raw, t.Leaf.Raw) {
						found = true
					}
				}
				if !found {
					res.violate("C11.b", "valid-certificate-not-reused", "%s: a certificate issued earlier for this host is still valid (until +%v) but a different one was presented", desc, validEarlier[len(validEarlier)-1].Leaf.NotAfter.Sub(w.start))
				} else {
					res.Probes["certificate_reused"]++
				}
				// two consecutive sequential tunnels agree exactly
				prev := ts[i-1]
				prevSeq := true
				for j := range ts {
					if j != i-1 && overlaps(ts[j], prev) {
						prevSeq = false
					}
				}
				if prevSeq && prev.Leaf != nil && !t.TunnelUpT.After(prev.Leaf.NotAfter) && !bytes.Equal(prev.Leaf.Raw, t.Leaf.Raw) {
					res.violate("C11.b", "certificate-not-stable", "%s: the previous tunnel to this host presented another certificate that is still valid", desc)
				}
			} else {
				res.Probes["expired_certificate_replaced"]++
			}
		}
	}
	res.Nontrivial = true
}

func failClass(s string) string {
	switch {
	case strings.Contains(s, "expired") || strings.Contains(s, "not yet valid"):
		return "certificate-expired"
	case strings.Contains(s, "not valid for") || strings.Contains(s, "doesn't contain any IP SANs") || strings.Contains(s, "valid for"):
		return "name-mismatch"
	case strings.Contains(s, "unknown authority"):
		return "unknown-authority"
	case strings.Contains(s, "connect status"):
		return "connect-refused"
	case strings.Contains(s, "EOF"):
		return "connection-closed"
	}
	return "other"
}

func init() {
	register(&Scenario{Name: "certs", Gen: func(r *rand.Rand, tier string) any { return genCertsPlan(r) }, Decode: decodeInto[ProxyPlan], Run: runProxyPlan, Shrink: shrinkProxyPlan})
}
