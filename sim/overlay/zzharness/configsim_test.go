package zzharness

// configsim: C17 (round trip, overrides), C18 (only workable configs, rejected
// update changes nothing; persist fault enumeration), C19 (components follow the
// latest setting; unsubscribe in any order).

import (
	"context"
	"encoding/json"
	"fmt"
	"log/slog"
	"math"
	"math/rand/v2"
	"os"
	"path/filepath"
	"sort"
	"strconv"
	"strings"
	"sync/atomic"
	"testing"
	"testing/synctest"
	"time"

	"reservoir/cache"
	"reservoir/config"
	"reservoir/logging"
	"reservoir/metrics"
	"reservoir/utils/bytesize"
	"reservoir/utils/duration"
	"reservoir/utils/event"
	"reservoir/zzsim"
)

// ---------------------------------------------------------------------------
// property table

type propSpec struct {
	Path []string
	Kind string // str bool int size dur level ctype
	read func(c *config.Config) string
	over func(c *config.Config, v string) // nil: not overridable from the command line
	vals []string                         // valid canonical values
}

func pInt(s string) int64 { n, _ := strconv.ParseInt(s, 10, 64); return n }

var sizeVals = []string{"1", "1023", "1024", "1025", "1536", "1048576", "1048577", "10737418240", "5000000000", "1099511627776", "1099511639121", "9223372036854775807", "3221225472", "1610612736"}
var durVals = []string{"1000000", "1000000000", "90000000000", "3600000000000", "1500000000", "5400500000000", "1", "5400000000000"}

func propTable() []propSpec {
	strP := func(path []string, get func(c *config.Config) *config.ConfigProp[string], overridable bool, vals []string) propSpec {
		ps := propSpec{Path: path, Kind: "str", vals: vals, read: func(c *config.Config) string { return get(c).Read() }}
		if overridable {
			ps.over = func(c *config.Config, v string) { get(c).Overwrite(v) }
		}
		return ps
	}
	boolP := func(path []string, get func(c *config.Config) *config.ConfigProp[bool], overridable bool) propSpec {
		ps := propSpec{Path: path, Kind: "bool", vals: []string{"true", "false"}, read: func(c *config.Config) string { return strconv.FormatBool(get(c).Read()) }}
		if overridable {
			ps.over = func(c *config.Config, v string) { get(c).Overwrite(v == "true") }
		}
		return ps
	}
	intP := func(path []string, get func(c *config.Config) *config.ConfigProp[int], overridable bool, vals []string) propSpec {
		ps := propSpec{Path: path, Kind: "int", vals: vals, read: func(c *config.Config) string { return strconv.Itoa(get(c).Read()) }}
		if overridable {
			ps.over = func(c *config.Config, v string) { get(c).Overwrite(int(pInt(v))) }
		}
		return ps
	}
	sizeP := func(path []string, get func(c *config.Config) *config.ConfigProp[bytesize.ByteSize], overridable bool) propSpec {
		ps := propSpec{Path: path, Kind: "size", vals: sizeVals, read: func(c *config.Config) string { return strconv.FormatInt(get(c).Read().Bytes(), 10) }}
		if overridable {
			ps.over = func(c *config.Config, v string) { get(c).Overwrite(bytesize.ByteSize(pInt(v))) }
		}
		return ps
	}
	durP := func(path []string, get func(c *config.Config) *config.ConfigProp[duration.Duration]) propSpec {
		return propSpec{Path: path, Kind: "dur", vals: durVals, read: func(c *config.Config) string { return strconv.FormatInt(int64(get(c).Read()), 10) }}
	}
	return []propSpec{
		strP([]string{"proxy", "listen"}, func(c *config.Config) *config.ConfigProp[string] { return &c.Proxy.Listen }, true, []string{":9999", "127.0.0.1:8080", "localhost:1"}),
		strP([]string{"proxy", "ca_cert"}, func(c *config.Config) *config.ConfigProp[string] { return &c.Proxy.CaCert }, true, []string{"ssl/ca.crt", "x.crt"}),
		strP([]string{"proxy", "ca_key"}, func(c *config.Config) *config.ConfigProp[string] { return &c.Proxy.CaKey }, true, []string{"ssl/ca.key", "x.key"}),
		boolP([]string{"proxy", "upstream_default_https"}, func(c *config.Config) *config.ConfigProp[bool] { return &c.Proxy.UpstreamDefaultHttps }, false),
		boolP([]string{"proxy", "retry_on_range_416"}, func(c *config.Config) *config.ConfigProp[bool] { return &c.Proxy.RetryOnRange416 }, false),
		boolP([]string{"proxy", "retry_on_invalid_range"}, func(c *config.Config) *config.ConfigProp[bool] { return &c.Proxy.RetryOnInvalidRange }, false),
		boolP([]string{"proxy", "cache_policy", "ignore_cache_control"}, func(c *config.Config) *config.ConfigProp[bool] { return &c.Proxy.CachePolicy.IgnoreCacheControl }, false),
		durP([]string{"proxy", "cache_policy", "default_max_age"}, func(c *config.Config) *config.ConfigProp[duration.Duration] { return &c.Proxy.CachePolicy.DefaultMaxAge }),
		boolP([]string{"proxy", "cache_policy", "force_default_max_age"}, func(c *config.Config) *config.ConfigProp[bool] { return &c.Proxy.CachePolicy.ForceDefaultMaxAge }, false),
		strP([]string{"webserver", "listen"}, func(c *config.Config) *config.ConfigProp[string] { return &c.Webserver.Listen }, true, []string{"localhost:8080", ":1"}),
		boolP([]string{"webserver", "dashboard_disabled"}, func(c *config.Config) *config.ConfigProp[bool] { return &c.Webserver.DashboardDisabled }, false),
		boolP([]string{"webserver", "api_disabled"}, func(c *config.Config) *config.ConfigProp[bool] { return &c.Webserver.ApiDisabled }, false),
		sizeP([]string{"cache", "max_cache_size"}, func(c *config.Config) *config.ConfigProp[bytesize.ByteSize] { return &c.Cache.MaxCacheSize }, false),
		{Path: []string{"cache", "type"}, Kind: "ctype", vals: []string{"file", "memory"}, read: func(c *config.Config) string { return string(c.Cache.Type.Read()) }},
		durP([]string{"cache", "cleanup_interval"}, func(c *config.Config) *config.ConfigProp[duration.Duration] { return &c.Cache.CleanupInterval }),
		intP([]string{"cache", "lock_shards"}, func(c *config.Config) *config.ConfigProp[int] { return &c.Cache.LockShards }, false, []string{"1", "2", "1024", "65536"}),
		strP([]string{"cache", "file", "dir"}, func(c *config.Config) *config.ConfigProp[string] { return &c.Cache.File.Dir }, true, []string{"var/cache/", "x"}),
		intP([]string{"cache", "memory", "memory_budget_percent"}, func(c *config.Config) *config.ConfigProp[int] { return &c.Cache.Memory.MemoryBudgetPercent }, false, []string{"1", "50", "75", "100"}),
		{Path: []string{"logging", "level"}, Kind: "level", vals: []string{"-4", "0", "4", "8", "2", "-8", "12"},
			read: func(c *config.Config) string { return strconv.Itoa(int(c.Logging.Level.Read())) },
			over: func(c *config.Config, v string) { c.Logging.Level.Overwrite(slog.Level(pInt(v))) }},
		strP([]string{"logging", "file"}, func(c *config.Config) *config.ConfigProp[string] { return &c.Logging.File }, true, []string{"var/proxy.log", "", "other.log"}),
		sizeP([]string{"logging", "max_size"}, func(c *config.Config) *config.ConfigProp[bytesize.ByteSize] { return &c.Logging.MaxSize }, true),
		intP([]string{"logging", "max_backups"}, func(c *config.Config) *config.ConfigProp[int] { return &c.Logging.MaxBackups }, true, []string{"0", "3", "100"}),
		boolP([]string{"logging", "compress"}, func(c *config.Config) *config.ConfigProp[bool] { return &c.Logging.Compress }, true),
		boolP([]string{"logging", "to_stdout"}, func(c *config.Config) *config.ConfigProp[bool] { return &c.Logging.ToStdout }, true),
	}
}

func pathKey(p []string) string { return strings.Join(p, ".") }

// samePlace: two host:port listen addresses that cannot both be bound (same port, not 0, and the
// same host or one of them every host).
func samePlace(a, b string) bool {
	ia, ib := strings.LastIndex(a, ":"), strings.LastIndex(b, ":")
	if ia < 0 || ib < 0 || a[ia+1:] != b[ib+1:] || a[ia+1:] == "0" {
		return false
	}
	ha, hb := a[:ia], b[:ib]
	return ha == hb || ha == "" || hb == "" || ha == "0.0.0.0" || hb == "0.0.0.0"
}

// docValue renders a canonical value as it would appear in an update document.
func docValue(kind, v string, variant int) any {
	switch kind {
	case "bool":
		return v == "true"
	case "int":
		return pInt(v)
	case "size":
		n := pInt(v)
		units := []struct {
			s string
			m int64
		}{{"T", 1 << 40}, {"G", 1 << 30}, {"M", 1 << 20}, {"K", 1 << 10}}
		if variant%2 == 1 {
			for _, u := range units {
				if n%u.m == 0 {
					return strconv.FormatInt(n/u.m, 10) + u.s
				}
			}
		}
		return v + "B"
	case "dur":
		return time.Duration(pInt(v)).String()
	case "level":
		return slog.Level(pInt(v)).String()
	}
	return v
}

func setPath(doc map[string]any, path []string, v any) {
	m := doc
	for _, k := range path[:len(path)-1] {
		nm, ok := m[k].(map[string]any)
		if !ok {
			nm = map[string]any{}
			m[k] = nm
		}
		m = nm
	}
	m[path[len(path)-1]] = v
}

func getPath(doc map[string]any, path []string) (any, bool) {
	var cur any = doc
	for _, k := range path {
		m, ok := cur.(map[string]any)
		if !ok {
			return nil, false
		}
		cur, ok = m[k]
		if !ok {
			return nil, false
		}
	}
	return cur, true
}

// fileValue turns the JSON value found in the config file into the canonical form.
func fileValue(kind string, v any) (string, bool) {
	switch kind {
	case "bool":
		b, ok := v.(bool)
		return strconv.FormatBool(b), ok
	case "int":
		f, ok := v.(float64)
		return strconv.FormatInt(int64(f), 10), ok
	case "size":
		s, ok := v.(string)
		if !ok {
			return "", false
		}
		n, ok2 := refSize(s)
		return strconv.FormatInt(n, 10), ok2
	case "dur":
		s, ok := v.(string)
		if !ok {
			return "", false
		}
		d, err := time.ParseDuration(s)
		return strconv.FormatInt(int64(d), 10), err == nil
	case "level":
		s, ok := v.(string)
		if !ok {
			return "", false
		}
		var l slog.Level
		err := l.UnmarshalText([]byte(s))
		return strconv.Itoa(int(l)), err == nil
	}
	s, ok := v.(string)
	return s, ok
}

// refSize: documented form digits + one unit letter, meaning digits x unit.
func refSize(s string) (int64, bool) {
	if len(s) < 2 {
		return 0, false
	}
	unit := map[byte]int64{'B': 1, 'K': 1 << 10, 'M': 1 << 20, 'G': 1 << 30, 'T': 1 << 40}[s[len(s)-1]]
	if unit == 0 {
		return 0, false
	}
	digits := s[:len(s)-1]
	var n int64
	for _, c := range digits {
		if c < '0' || c > '9' {
			return 0, false
		}
		d := int64(c - '0')
		if n > (math.MaxInt64-d)/10 {
			return 0, false
		}
		n = n*10 + d
	}
	if n != 0 && n > math.MaxInt64/unit {
		return 0, false
	}
	return n * unit, true
}

// ---------------------------------------------------------------------------
// C17: round trip / overrides

type CfgOp struct {
	Kind  string            `json:"k"` // update | override | restart
	Set   map[string]string `json:"set,omitempty"`
	Var   int               `json:"var,omitempty"`
	Bad   string            `json:"bad,omitempty"` // badupdate: the setting that gets a value of the wrong JSON type
	// badupdate: instead of an ill-typed value, Bad gets the well-typed but unworkable BadVal
	BadInvalid bool   `json:"bad_invalid,omitempty"`
	BadVal     string `json:"bad_val,omitempty"`
	Current    bool   `json:"current,omitempty"` // badupdate: the first workable setting is given the value it already has
	// update: the config file cannot grow beyond Fault bytes while this update is applied (the
	// write of the file fails part-way); Again marks the same update submitted once more afterwards
	Fault int  `json:"fault,omitempty"`
	Again bool `json:"again,omitempty"`
}

type CfgPlan struct {
	Ops []CfgOp `json:"ops"`
}

func genCfgPlan(r *rand.Rand) *CfgPlan {
	tbl := propTable()
	p := &CfgPlan{}
	n := 2 + r.IntN(7)
	for i := 0; i < n; i++ {
		switch x := r.IntN(10); {
		case x < 5:
			op := CfgOp{Kind: "update", Set: map[string]string{}, Var: r.IntN(4)}
			for k := 0; k < 1+r.IntN(3); k++ {
				ps := tbl[r.IntN(len(tbl))]
				op.Set[pathKey(ps.Path)] = ps.vals[r.IntN(len(ps.vals))]
			}
			if r.IntN(6) == 0 {
				// the disk is full while the file is written; two times out of three the operator
				// saves the same form again once it is not
				op.Fault = 1 + r.IntN(200)
				p.Ops = append(p.Ops, op)
				if r.IntN(3) > 0 {
					op.Fault, op.Again = 0, true
					p.Ops = append(p.Ops, op)
				}
				continue
			}
			p.Ops = append(p.Ops, op)
		case x == 9 || x == 8 && r.IntN(2) == 0:
			// a document that must be refused while it is read: workable values for some settings
			// and an ill-typed value for another one
			op := CfgOp{Kind: "badupdate", Set: map[string]string{}, Var: r.IntN(4)}
			for k := 0; k < 1+r.IntN(2); k++ {
				ps := tbl[r.IntN(len(tbl))]
				op.Set[pathKey(ps.Path)] = ps.vals[r.IntN(len(ps.vals))]
			}
			for {
				ps := tbl[r.IntN(len(tbl))]
				if _, dup := op.Set[pathKey(ps.Path)]; !dup {
					op.Bad = pathKey(ps.Path)
					break
				}
			}
			if r.IntN(2) == 0 {
				// refused later, when the whole configuration is verified: a well-typed value the
				// proxy cannot run under
				inv := [][2]string{{"cache.max_cache_size", "0B"}, {"cache.cleanup_interval", "0s"}, {"cache.memory.memory_budget_percent", "101"}, {"cache.lock_shards", "0"}, {"cache.type", "disk"}, {"proxy.listen", ""}, {"cache.file.dir", ""}}
				pick := inv[r.IntN(len(inv))]
				if _, dup := op.Set[pick[0]]; !dup {
					op.Bad, op.BadVal = pick[0], pick[1]
					op.BadInvalid = true
				}
			}
			// some of the workable values are the ones already in force
			op.Current = r.IntN(2) == 0
			p.Ops = append(p.Ops, op)
		case x == 7 && r.IntN(2) == 0:
			// the file is edited behind the proxy's back and lacks a setting or a whole section
			// (a file written by an older version), then the proxy is restarted
			ps := tbl[r.IntN(len(tbl))]
			k := pathKey(ps.Path)
			if r.IntN(3) == 0 && len(ps.Path) > 1 {
				k = pathKey(ps.Path[:len(ps.Path)-1])
			}
			p.Ops = append(p.Ops, CfgOp{Kind: "dropfield", Bad: k})
		case x < 7:
			var ov []propSpec
			for _, ps := range tbl {
				if ps.over != nil {
					ov = append(ov, ps)
				}
			}
			ps := ov[r.IntN(len(ov))]
			p.Ops = append(p.Ops, CfgOp{Kind: "override", Set: map[string]string{pathKey(ps.Path): ps.vals[r.IntN(len(ps.vals))]}})
		default:
			p.Ops = append(p.Ops, CfgOp{Kind: "restart"})
		}
	}
	p.Ops = append(p.Ops, CfgOp{Kind: "restart"})
	return p
}

func runCfgPlan(t *testing.T, planAny any, ctl Ctl) *Result {
	p := planAny.(*CfgPlan)
	res := newResult()
	res.Evals = 0
	dir := newRunDir()
	os.Chdir(dir)
	os.MkdirAll(filepath.Join(dir, "var"), 0o755)
	defer os.RemoveAll(dir)
	tbl := propTable()
	byKey := map[string]propSpec{}
	for _, ps := range tbl {
		byKey[pathKey(ps.Path)] = ps
	}
	// no tasks here, but the order in which the code walks an update document (a Go map) is
	// decided by the seed like every other choice
	ms := zzsim.New(ctl.Seed, zzsim.Policy{MapPerm: true})
	ms.Attach()
	defer ms.Detach()
	ms.Exempt()
	defer ms.Unexempt()
	path := filepath.Join("var", "config.json")
	cfg, err := config.LoadOrDefault(path)
	if err != nil {
		res.Infra = "initial LoadOrDefault failed: " + err.Error()
		return res
	}
	base := map[string]string{}
	override := map[string]string{}
	for _, ps := range tbl {
		base[pathKey(ps.Path)] = ps.read(cfg)
	}
	var hist []string
	check := func(where string) {
		res.Evals++
		for _, ps := range tbl {
			k := pathKey(ps.Path)
			want := base[k]
			rule, what := "C17.a", "value-after-reload"
			if where != "restart" {
				rule, what = "C17.b", "effective-value"
			}
			if ov, ok := override[k]; ok {
				want = ov
				what = "override-not-in-force"
			}
			if got := ps.read(cfg); got != want {
				res.violate(rule, fmt.Sprintf("%s: %s (%s)", what, k, ps.Kind), "after %s: %s reads %s, expected %s [history: %s]", where, k, got, want, strings.Join(hist, "; "))
			}
		}
	}
	checkFile := func() {
		b, err := os.ReadFile(path)
		if err != nil {
			res.violate("C17.c", "config-file-unreadable", "%v", err)
			return
		}
		var doc map[string]any
		if err := json.Unmarshal(b, &doc); err != nil {
			res.violate("C17.c", "config-file-not-json", "%v: %q", err, string(b[:min(len(b), 120)]))
			return
		}
		for _, ps := range tbl {
			k := pathKey(ps.Path)
			v, ok := getPath(doc, ps.Path)
			if !ok {
				continue
			}
			fv, ok := fileValue(ps.Kind, v)
			if ok && fv != base[k] {
				// read straight from the file, not through the package's loader: this is what another
				// process (the next start) finds
				res.violate("C17.a", "file-holds-other-value: "+k, "the saved value of %s is %s, the file holds %s [history: %s]", k, base[k], fv, strings.Join(hist, "; "))
			}
			if ov, has := override[k]; has && ok && fv == ov && ov != base[k] {
				res.violate("C17.c", "override-written-to-file: "+k, "the file holds the command-line value %s of %s (base value %s) [history: %s]", ov, k, base[k], strings.Join(hist, "; "))
			}
		}
	}
	for _, op := range p.Ops {
		switch op.Kind {
		case "update":
			doc := map[string]any{}
			var desc []string
			keys := make([]string, 0, len(op.Set))
			for k := range op.Set {
				keys = append(keys, k)
			}
			sort.Strings(keys)
			for _, k := range keys {
				ps := byKey[k]
				dv := docValue(ps.Kind, op.Set[k], op.Var)
				setPath(doc, ps.Path, dv)
				desc = append(desc, fmt.Sprintf("%s=%v", k, dv))
			}
			hist = append(hist, "update "+strings.Join(desc, ","))
			restoreLimit := func() {}
			if op.Fault > 0 {
				hist[len(hist)-1] += fmt.Sprintf(" (config file limited to %d bytes)", op.Fault)
				restoreLimit = setFsizeLimit(uint64(op.Fault))
			}
			if op.Again {
				hist[len(hist)-1] += " (again)"
				res.Probes["update_again_after_persist_fault"]++
			}
			st, err := config.UpdatePartialFromConfig(cfg, doc)
			restoreLimit()
			if op.Fault > 0 && (err != nil || st == config.UpdateStatusFailed) {
				// refused because the file could not be written: nothing was saved, nothing changes
				res.Faults["persist_short_write"]++
				check("update refused for a failing file write")
				checkFile()
				continue
			}
			// the one combination of workable values the process cannot start under: the dashboard
			// needs the API (main refuses to start with the API disabled and the dashboard enabled)
			after := func(k string) string {
				if v, ok := op.Set[k]; ok {
					return v
				}
				return base[k]
			}
			if after("webserver.api_disabled") == "true" && after("webserver.dashboard_disabled") == "false" {
				if err == nil && st != config.UpdateStatusFailed {
					res.violate("C18.a", "unworkable-update-accepted: api disabled, dashboard enabled", "update %v was accepted [history: %s]", desc, strings.Join(hist, "; "))
					for _, k := range keys {
						base[k] = op.Set[k]
					}
				} else {
					check("refused update")
					checkFile()
				}
				continue
			}
			// the other one: proxy and web server (when it runs at all) told to listen on the same port of
			// the same host, or of all hosts: the second bind fails. It is unworkable both as the running
			// process sees it (command-line values on top) and as the file would hold it (the next start
			// without the flags).
			effective := func(k string) string {
				if ov, has := override[k]; has {
					return ov
				}
				return after(k)
			}
			webRuns := !(after("webserver.api_disabled") == "true" && after("webserver.dashboard_disabled") == "true")
			if webRuns && (samePlace(after("proxy.listen"), after("webserver.listen")) || samePlace(effective("proxy.listen"), effective("webserver.listen"))) {
				res.Probes["listen_collision_update"]++
				if err == nil && st != config.UpdateStatusFailed {
					res.violate("C18.a", "unworkable-update-accepted: proxy and web server on one port", "update %v was accepted [history: %s]", desc, strings.Join(hist, "; "))
					for _, k := range keys {
						base[k] = op.Set[k]
					}
				} else {
					check("refused update")
					checkFile()
				}
				continue
			}
			if err != nil || st == config.UpdateStatusFailed {
				res.violate("C17.b", "valid-update-rejected: "+strings.Join(keys, ","), "update %v was rejected: %v", desc, err)
				continue
			}
			for _, k := range keys {
				base[k] = op.Set[k]
			}
			check("update")
			checkFile()
		case "badupdate":
			doc := map[string]any{}
			var desc []string
			keys := make([]string, 0, len(op.Set))
			for k := range op.Set {
				keys = append(keys, k)
			}
			sort.Strings(keys)
			for i, k := range keys {
				ps := byKey[k]
				val := op.Set[k]
				if i == 0 && op.Current {
					val = base[k] // the value in force (stored): naming it again must change nothing either
				}
				dv := docValue(ps.Kind, val, op.Var)
				setPath(doc, ps.Path, dv)
				desc = append(desc, fmt.Sprintf("%s=%v", k, dv))
			}
			bad := byKey[op.Bad]
			var bv any = 12.5
			if bad.Kind == "int" || bad.Kind == "bool" {
				bv = "x"
			}
			what := "ill-typed"
			if op.BadInvalid {
				what = "unworkable"
				switch bad.Kind {
				case "int":
					bv = float64(pInt(op.BadVal))
				default:
					bv = op.BadVal
				}
			}
			setPath(doc, bad.Path, bv)
			desc = append(desc, fmt.Sprintf("%s=%v(%s)", op.Bad, bv, what))
			hist = append(hist, "refused update "+strings.Join(desc, ","))
			st, err := config.UpdatePartialFromConfig(cfg, doc)
			if err == nil && st != config.UpdateStatusFailed {
				// C18's business; keep the reference in step with what the code did
				for _, k := range keys {
					base[k] = op.Set[k]
				}
				hist[len(hist)-1] += " (accepted!)"
				continue
			}
			res.Probes["refused_update"]++
			check("refused update")
			checkFile()
		case "dropfield":
			b, rerr := os.ReadFile(path)
			var fdoc map[string]any
			if rerr != nil || json.Unmarshal(b, &fdoc) != nil {
				continue
			}
			parts := strings.Split(op.Bad, ".")
			m := fdoc
			for _, seg := range parts[:len(parts)-1] {
				nm, ok := m[seg].(map[string]any)
				if !ok {
					m = nil
					break
				}
				m = nm
			}
			if m == nil {
				continue
			}
			delete(m, parts[len(parts)-1])
			nb, _ := json.MarshalIndent(fdoc, "", "  ")
			os.WriteFile(path, nb, 0o644)
			hist = append(hist, "file loses "+op.Bad+", restart")
			ncfg, lerr := config.LoadOrDefault(path)
			if lerr != nil {
				res.violate("C17.a", "reload-failed", "LoadOrDefault: %v [history: %s]", lerr, strings.Join(hist, "; "))
				continue
			}
			cfg = ncfg
			override = map[string]string{}
			res.Probes["incomplete_file_loaded"]++
			// whatever was made of the incomplete file (refused and reset, or completed with defaults):
			// the configuration the proxy now runs under has a value for every setting ...
			for _, ps := range tbl {
				func() {
					defer func() {
						if r := recover(); r != nil {
							res.violate("C18.a", "accepted-file-leaves-setting-without-value: "+pathKey(ps.Path), "after loading a file without %s, reading %s panics: %v [history: %s]", op.Bad, pathKey(ps.Path), r, strings.Join(hist, "; "))
							base[pathKey(ps.Path)] = "?"
						}
					}()
					base[pathKey(ps.Path)] = ps.read(cfg)
				}()
			}
			// ... and takes a valid update
			hist = append(hist, "update logging.max_backups=4")
			if st, uerr := config.UpdatePartialFromConfig(cfg, map[string]any{"logging": map[string]any{"max_backups": float64(4)}}); uerr != nil || st == config.UpdateStatusFailed {
				res.violate("C18.b", "valid-update-rejected: after loading an incomplete file", "the configuration loaded from a file without %s refuses {\"logging\":{\"max_backups\":4}}: %v [history: %s]", op.Bad, uerr, strings.Join(hist, "; "))
				continue
			}
			base["logging.max_backups"] = "4"
			check("update")
			checkFile()
		case "override":
			for k, v := range op.Set {
				byKey[k].over(cfg, v)
				override[k] = v
				hist = append(hist, fmt.Sprintf("override %s=%s", k, v))
			}
			check("override")
		case "restart":
			hist = append(hist, "restart")
			ncfg, err := config.LoadOrDefault(path)
			if err != nil {
				res.violate("C17.a", "reload-failed", "LoadOrDefault: %v [history: %s]", err, strings.Join(hist, "; "))
				continue
			}
			cfg = ncfg
			override = map[string]string{}
			check("restart")
		}
	}
	res.Probes["config_ops"] += len(p.Ops)
	res.Nontrivial = true
	res.Trace = hashBytes([]byte(strings.Join(hist, "|")))
	return res
}

func shrinkCfgPlan(planAny any) []any {
	p := planAny.(*CfgPlan)
	var out []any
	for i := range p.Ops {
		if len(p.Ops) > 1 {
			q := &CfgPlan{Ops: append(append([]CfgOp{}, p.Ops[:i]...), p.Ops[i+1:]...)}
			out = append(out, q)
		}
	}
	for i, op := range p.Ops {
		if len(op.Set) > 1 {
			for k := range op.Set {
				q := &CfgPlan{Ops: append([]CfgOp{}, p.Ops...)}
				ns := map[string]string{}
				for kk, vv := range op.Set {
					if kk != k {
						ns[kk] = vv
					}
				}
				q.Ops[i].Set = ns
				out = append(out, q)
			}
		}
	}
	return out
}

// C17.d: size strings, three-valued
var sizeAlpha5 = []byte("0123456789BKMGTx ")

func genSizePlan(r *rand.Rand, tier string) *ParserPlan {
	idx := int(currentSeed&0xffffffff) / 2
	p := &ParserPlan{Kind: "sizes"}
	total := 1 + 17 + 289 + 4913 + 83521 + 1419857
	per := 3000
	for k := 0; k < per; k++ {
		p.Items = append(p.Items, enumString(sizeAlpha5, (idx*per+k)%total))
	}
	for _, u := range []string{"B", "K", "M", "G", "T", ""} {
		p.Items = append(p.Items, "9223372036854775807"+u, "9223372036854775808"+u, "18446744073709551616"+u, "99999999999999999999"+u, "9007199254740993"+u, "8388608"+u, "8388607"+u, "000000000000000000001"+u)
	}
	return p
}

func runSizePlan(t *testing.T, planAny any, ctl Ctl) *Result {
	p := planAny.(*ParserPlan)
	res := newResult()
	res.Evals = 0
	for _, s := range p.Items {
		res.Evals++
		var got bytesize.ByteSize
		var err error
		func() {
			defer func() {
				if r := recover(); r != nil {
					err = fmt.Errorf("panic: %v", r)
					res.violate("C16.b", "panic in bytesize.Parse", "Parse(%q) panicked: %v", s, r)
				}
			}()
			got, err = bytesize.Parse(s)
		}()
		want, documented := refSize(s)
		bare := s != "" && strings.Trim(s, "0123456789") == ""
		switch {
		case documented:
			if err != nil {
				res.violate("C17.d", "documented-form-rejected: "+sizeClass(s), "Parse(%q) failed: %v; it is digits x unit = %d", s, err, want)
			} else if int64(got) != want {
				res.violate("C17.d", "wrong-value: "+sizeClass(s), "Parse(%q) = %d, digits x unit = %d", s, int64(got), want)
			}
		case bare:
			// digits without a unit are not the documented form: "accepted only in the documented
			// digits-plus-unit form"
			if err == nil {
				res.violate("C17.d", "malformed-accepted: bare-digits", "Parse(%q) = %d, but there is no unit", s, int64(got))
			}
		default:
			if err == nil {
				res.violate("C17.d", "malformed-accepted: "+sizeClass(s), "Parse(%q) = %d, but it is not digits followed by one unit", s, int64(got))
			}
		}
	}
	res.Probes["size_strings"] += len(p.Items)
	res.Nontrivial = true
	res.Trace = hashBytes([]byte(p.Items[0] + p.Items[len(p.Items)/2]))
	return res
}

func sizeClass(s string) string {
	var b strings.Builder
	prev := byte(0)
	nd := 0
	for i := 0; i < len(s); i++ {
		c := s[i]
		if c >= '0' && c <= '9' {
			nd++
			if prev != 'N' {
				b.WriteByte('N')
			}
			prev = 'N'
			continue
		}
		if prev == 'N' && nd > 15 {
			b.WriteString("(big)")
		}
		nd = 0
		switch c {
		case 'B', 'K', 'M', 'G', 'T':
			b.WriteByte('U')
			prev = 'U'
		case ' ':
			b.WriteByte('_')
			prev = '_'
		default:
			b.WriteByte('x')
			prev = 'x'
		}
	}
	if prev == 'N' && nd > 15 {
		b.WriteString("(big)")
	}
	if b.Len() == 0 {
		return "empty"
	}
	return b.String()
}

// ---------------------------------------------------------------------------
// C19 (i): eventsim on utils/event

type EvOp struct {
	Kind string `json:"k"` // sub unsub fire
	L    int    `json:"l,omitempty"`
	V    int    `json:"v,omitempty"`
	A    int    `json:"a,omitempty"` // actor: 0 changes the listener set, 1 fires (concurrently)
}

type EventPlan struct {
	Ops []EvOp       `json:"ops"`
	Pol zzsim.Policy `json:"pol"`
}

func genEventPlan(r *rand.Rand) *EventPlan {
	p := &EventPlan{Pol: genPolicy(r, false)}
	nl := 1 + r.IntN(5)
	live := map[int]bool{}
	subbed := map[int]bool{}
	v := 0
	n := 3 + r.IntN(10)
	for i := 0; i < n; i++ {
		switch r.IntN(3) {
		case 0:
			l := r.IntN(nl)
			if !subbed[l] {
				subbed[l], live[l] = true, true
				p.Ops = append(p.Ops, EvOp{Kind: "sub", L: l})
			}
		case 1:
			var ls []int
			for l := range live {
				ls = append(ls, l)
			}
			sort.Ints(ls)
			if len(ls) > 0 {
				l := ls[r.IntN(len(ls))]
				delete(live, l)
				p.Ops = append(p.Ops, EvOp{Kind: "unsub", L: l})
			}
		default:
			v++
			p.Ops = append(p.Ops, EvOp{Kind: "fire", V: v})
		}
	}
	if r.IntN(2) == 0 {
		// the fires run in a second task, concurrently with the subscribe/unsubscribe history
		for i := range p.Ops {
			if p.Ops[i].Kind == "fire" {
				p.Ops[i].A = 1
			}
		}
	}
	return p
}

func runEventPlan(t *testing.T, planAny any, ctl Ctl) *Result {
	p := planAny.(*EventPlan)
	res := newResult()
	type deliv struct{ l, v int }
	var delivered []deliv
	// per listener: event-sequence numbers of subscribe return / unsubscribe call / unsubscribe return
	type lstate struct{ subRet, unsubCall, unsubRet int64 }
	ls := map[int]*lstate{}
	type fstate struct{ call, ret int64 }
	fires := map[int]*fstate{}
	var seq int64
	next := func() int64 { resMu.Lock(); defer resMu.Unlock(); seq++; return seq }
	var actorPanic string
	var sig []string
	concurrent := false
	for _, op := range p.Ops {
		sig = append(sig, fmt.Sprintf("%s%d", op.Kind, op.L+op.V))
		if op.A != 0 {
			concurrent = true
		}
	}
	bubble(t, res, func() {
		s := zzsim.New(ctl.Seed, racePol(p.Pol))
		if ctl.Replay != nil {
			s.SetReplay(ctl.Replay, ctl.Guided)
		}
		s.Attach()
		defer s.Detach()
		ev := event.New[int]()
		unsubs := map[int]event.Unsubscribe{}
		run := func(actor int) func() {
			return func() {
				defer func() {
					if r := recover(); r != nil {
						resMu.Lock()
						actorPanic = fmt.Sprint(r)
						resMu.Unlock()
					}
				}()
				for _, op := range p.Ops {
					if op.A != actor {
						continue
					}
					switch op.Kind {
					case "sub":
						l := op.L
						un := ev.Subscribe(func(v int) {
							zzsim.Yield("harness:event-delivery")
							resMu.Lock()
							delivered = append(delivered, deliv{l, v})
							resMu.Unlock()
						})
						resMu.Lock()
						unsubs[l] = un
						ls[l] = &lstate{}
						resMu.Unlock()
						ls[l].subRet = next()
					case "unsub":
						resMu.Lock()
						un, st := unsubs[op.L], ls[op.L]
						resMu.Unlock()
						st.unsubCall = next()
						un()
						st.unsubRet = next()
					case "fire":
						f := &fstate{call: next()}
						resMu.Lock()
						fires[op.V] = f
						resMu.Unlock()
						ev.Fire(op.V)
						f.ret = next()
					}
					s.Yield("harness:event-op")
				}
			}
		}
		s.Spawn("actor:events", run(0))
		if concurrent {
			s.Spawn("actor:firer", run(1))
		}
		end := s.Run(func() bool { return s.AllDone() })
		finishSched(res, s, end)
		for _, pm := range s.Panics {
			res.violate("C19.a", "delivery-panicked", "%s [%s]", pm, strings.Join(sig, " "))
		}
		s.Drain(func(string) bool { return true })
	})
	if res.Infra != "" {
		return res
	}
	history := strings.Join(sig, " ")
	if concurrent {
		history += " (fires in a concurrent task)"
	}
	if actorPanic != "" {
		res.violate("C19.a", "unsubscribe-panicked", "%s [%s]", actorPanic, history)
		return res
	}
	count := map[deliv]int{}
	for _, d := range delivered {
		count[d]++
	}
	var vals []int
	for v := range fires {
		vals = append(vals, v)
	}
	sort.Ints(vals)
	for _, v := range vals {
		res.Evals++
		f := fires[v]
		for l := 0; l < 6; l++ {
			n := count[deliv{l, v}]
			st := ls[l]
			// live for the whole Fire call: must get it exactly once. Not subscribed when Fire
			// was invoked, or unsubscribed before it was invoked: must not get it. Otherwise
			// (subscribe/unsubscribe overlapping the Fire call): may get it, at most once.
			mustGet := st != nil && st.subRet != 0 && st.subRet < f.call && (st.unsubCall == 0 || st.unsubCall > f.ret)
			mustNot := st == nil || st.subRet == 0 || (f.ret != 0 && st.subRet > f.ret) || (st.unsubRet != 0 && st.unsubRet < f.call)
			switch {
			case mustGet && n != 1:
				res.violate("C19.b", fmt.Sprintf("live-listener-got-%d-deliveries", n), "value %d was fired while listener %d was subscribed; it was delivered %d times [%s]", v, l, n, history)
			case mustNot && n > 0:
				res.violate("C19.b", "delivered-after-unsubscribe", "value %d reached listener %d, which was not subscribed when it was fired [%s]", v, l, history)
			case n > 1:
				res.violate("C19.b", "delivered-twice", "value %d reached listener %d %d times [%s]", v, l, n, history)
			}
		}
	}
	res.Probes["event_ops"] += len(p.Ops)
	if concurrent {
		res.Probes["event_fire_concurrent_with_unsubscribe"]++
	}
	res.Nontrivial = true
	return res
}

func shrinkEventPlan(planAny any) []any {
	p := planAny.(*EventPlan)
	var out []any
	for i := range p.Ops {
		q := &EventPlan{Pol: p.Pol, Ops: append(append([]EvOp{}, p.Ops[:i]...), p.Ops[i+1:]...)}
		// keep the plan well-formed: an unsub needs its sub
		ok := true
		sub := map[int]bool{}
		for _, op := range q.Ops {
			if op.Kind == "sub" {
				if sub[op.L] {
					ok = false
				}
				sub[op.L] = true
			}
			if op.Kind == "unsub" {
				if !sub[op.L] {
					ok = false
				}
				delete(sub, op.L)
				sub[op.L] = false
			}
		}
		_ = ok
		wf := true
		state := map[int]int{}
		for _, op := range q.Ops {
			switch op.Kind {
			case "sub":
				if state[op.L] != 0 {
					wf = false
				}
				state[op.L] = 1
			case "unsub":
				if state[op.L] != 1 {
					wf = false
				}
				state[op.L] = 2
			}
		}
		if wf && len(q.Ops) > 0 {
			out = append(out, q)
		}
	}
	return out
}

// ---------------------------------------------------------------------------
// C18 / C19 (ii): live components following the configuration

type CompChange struct {
	Doc   string `json:"doc"` // JSON update document
	Valid bool   `json:"valid"`
	Note  string `json:"note,omitempty"`
}

type CompPlan struct {
	Backend   string       `json:"backend"`
	Changes   []CompChange `json:"changes"`
	Override  string       `json:"override,omitempty"` // "listen" | "cache_dir" | "level": a command-line override is in force
	Destroy   string       `json:"destroy,omitempty"`  // "", "cache-first", "logger-first": components shut down before the last change
	PersistAt int          `json:"persist_at,omitempty"` // >0: RLIMIT_FSIZE for the last change's persist step
	Retry     bool         `json:"retry,omitempty"`      // the change hit by the persist fault is submitted once more, without the fault
	Hasty     bool         `json:"hasty,omitempty"`      // the change before the faulted one is not given time to be delivered: its notifications are still in flight when the next update is committed and rolled back
	Rapid     bool         `json:"rapid,omitempty"`      // changes follow one another without waiting for the notifications of the previous one
	// two operators at once: Changes2 is submitted by a second task while the first submits Changes
	// (the API serves its requests concurrently). Every outcome must be one that the updates applied
	// one after the other, in some order, could have produced.
	Concurrent bool         `json:"concurrent,omitempty"`
	Changes2   []CompChange `json:"changes2,omitempty"`
	Pol       zzsim.Policy `json:"pol"`
}

var compValidFixed = []string{`{"webserver":{"api_disabled":true,"dashboard_disabled":true}}`, `{"webserver":{"dashboard_disabled":true}}`,
	`{"cache":{"lock_shards":1}}`, `{"cache":{"lock_shards":7}}`, `{"cache":{"type":"file"}}`, `{"cache":{"type":"memory"}}`, `{"cache":{"memory":{"memory_budget_percent":0}}}`,
	`{"cache":{"file":{"dir":"other-cache"}}}`, `{"proxy":{"listen":":7777"}}`, `{"cache":{"max_cache_size":"1B"}}`, `{"cache":{"cleanup_interval":"50ms"}}`,
	// several logging settings in one update: each has its own handler, and they all rebuild the log writers
	`{"logging":{"file":"var/alt.log","max_backups":2}}`, `{"logging":{"file":"var/alt2.log","compress":true,"max_backups":1}}`, `{"logging":{"max_size":"2M","compress":true}}`,
	`{"logging":{"file":"var/alt.log","max_size":"3M","level":"WARN"}}`,
	// the workable neighbours of the refused combinations
	`{"proxy":{"listen":":8081"},"webserver":{"listen":"localhost:8082","api_disabled":false,"dashboard_disabled":false}}`,
	`{"proxy":{"listen":":8080"},"webserver":{"listen":"localhost:8080","api_disabled":true,"dashboard_disabled":true}}`,
	`{"cache":{"type":"file","file":{"dir":"var/cache2"}}}`}

var compValid = []string{
	`{"cache":{"max_cache_size":"%dB"}}`, `{"cache":{"cleanup_interval":"%dms"}}`, `{"cache":{"memory":{"memory_budget_percent":%d}}}`, `{"logging":{"level":"%s"}}`,
	`{"proxy":{"retry_on_invalid_range":%t}}`, `{"proxy":{"cache_policy":{"ignore_cache_control":%t}}}`, `{"cache":{"max_cache_size":"%dB","cleanup_interval":"%dms"}}`,
}

var compInvalid = []string{
	`{"cache":{"max_cache_size":"0B"}}`, `{"cache":{"max_cache_size":"-5B"}}`, `{"cache":{"max_cache_size":12}}`, `{"cache":{"cleanup_interval":"0s"}}`, `{"cache":{"cleanup_interval":"-1s"}}`,
	`{"cache":{"cleanup_interval":"soon"}}`, `{"cache":{"memory":{"memory_budget_percent":101}}}`, `{"cache":{"memory":{"memory_budget_percent":-1}}}`, `{"cache":{"memory":{"memory_budget_percent":"x"}}}`,
	`{"cache":{"type":"disk"}}`, `{"cache":{"file":{"dir":""}}}`, `{"proxy":{"listen":""}}`, `{"logging":{"level":"LOUD"}}`, `{"logging":{"level":5.5}}`,
	`{"cache":{"max_cache_size":"4096B","cleanup_interval":"0s"}}`, `{"cache":{"cleanup_interval":"250ms","max_cache_size":"0B"}}`, `{"logging":{"level":"DEBUG"},"cache":{"type":"disk"}}`,
	`{"cache":{"memory":{"memory_budget_percent":40}},"proxy":{"listen":""}}`, `{"cache":{"max_cache_size":"8192B"},"webserver":{"listen":""}}`,
	`{"webserver":{"api_disabled":true,"dashboard_disabled":false}}`, // (api_disabled alone depends on what is in force: cfg-roundtrip models that)
	`{"cache":{"lock_shards":0}}`, `{"cache":{"lock_shards":-3}}`, `{"cache":{"lock_shards":"many"}}`, `{"cache":{"lock_shards":1099511627776}}`, `{"cache":{"lock_shards":4503599627370496}}`, `{"proxy":{"listen":"","ca_cert":"x"}}`, `{"cache":{"file":{"dir":""}},"logging":{"level":"WARN"}}`,
	// addresses nobody can listen on: the next start would fail
	`{"proxy":{"listen":"nonsense"}}`, `{"proxy":{"listen":"localhost:99999"}}`, `{"webserver":{"listen":"localhost"}}`, `{"proxy":{"listen":"[::1"}}`, `{"webserver":{"listen":"0.0.0.0:http-but-not-a-service"}}`,
	`{"cache":{"max_cache_size":"3G M"}}`, `{"cache":{"max_cache_size":"K"}}`, `{"cache":{"max_cache_size":"99999999999999999999B"}}`,
	// a workable value for one setting next to an ill-typed one for another: refused while the document
	// is being read, possibly after the first setting has already been taken in
	`{"cache":{"max_cache_size":"4096B","cleanup_interval":12}}`, `{"cache":{"cleanup_interval":"250ms","max_cache_size":true}}`, `{"logging":{"level":"DEBUG"},"cache":{"lock_shards":"many"}}`,
	`{"cache":{"memory":{"memory_budget_percent":40}},"proxy":{"listen":7}}`, `{"cache":{"max_cache_size":"8192B"},"logging":{"level":5.5}}`, `{"cache":{"cleanup_interval":"350ms"},"proxy":{"retry_on_invalid_range":"yes"}}`,
	`{"logging":{"level":"WARN"},"cache":{"memory":{"memory_budget_percent":"x"}}}`,
	// the wrong JSON type one level up: a scalar, an array or null where a section is expected, an
	// object where a setting is expected, and null for a setting (it has no type; read as the zero
	// value it would switch a flag off or empty a path)
	`{"cache":"file"}`, `{"logging":[1,2]}`, `{"proxy":null}`, `{"cache":{"file":5}}`, `{"cache":{"max_cache_size":{"value":"1G"}}}`, `{"proxy":{"cache_policy":true}}`,
	`{"proxy":{"retry_on_range_416":null}}`, `{"logging":{"file":null}}`, `{"proxy":{"upstream_default_https":null},"cache":{"max_cache_size":"4096B"}}`, `{"cache":{"lock_shards":null}}`,
	`{"cache":{"cleanup_interval":"450ms"},"logging":"DEBUG"}`,
	// each value is fine on its own, together the next start fails: proxy and dashboard on one port;
	// a file cache (it empties its directory when it starts) over the directory of the configuration file
	`{"proxy":{"listen":":8080"},"webserver":{"listen":"localhost:8080","api_disabled":false,"dashboard_disabled":false}}`,
	`{"proxy":{"listen":"localhost:7070"},"webserver":{"listen":"localhost:7070","api_disabled":false,"dashboard_disabled":false}}`,
	`{"cache":{"type":"file","file":{"dir":"var"}}}`, `{"cache":{"type":"file","file":{"dir":"./var/"}}}`, `{"cache":{"type":"file","file":{"dir":"."}}}`,
}

func genCompPlan(r *rand.Rand, faults bool) *CompPlan {
	p := &CompPlan{Backend: []string{"memory", "file"}[r.IntN(2)], Pol: genPolicy(r, false)}
	p.Pol.MaxSteps = 6000
	n := 1 + r.IntN(4)
	lvls := []string{"DEBUG", "INFO", "WARN", "ERROR"}
	for i := 0; i < n; i++ {
		if r.IntN(3) == 0 {
			p.Changes = append(p.Changes, CompChange{Doc: compInvalid[r.IntN(len(compInvalid))], Valid: false})
			continue
		}
		if r.IntN(4) == 0 {
			p.Changes = append(p.Changes, CompChange{Doc: compValidFixed[r.IntN(len(compValidFixed))], Valid: true})
			continue
		}
		f := compValid[r.IntN(len(compValid))]
		var doc string
		switch strings.Count(f, "%") {
		case 2:
			doc = fmt.Sprintf(f, 1000+r.IntN(5)*4096, 100+r.IntN(5)*250)
		default:
			switch {
			case strings.Contains(f, "%s"):
				doc = fmt.Sprintf(f, lvls[r.IntN(4)])
			case strings.Contains(f, "%t"):
				doc = fmt.Sprintf(f, r.IntN(2) == 0)
			case strings.Contains(f, "percent"):
				doc = fmt.Sprintf(f, 1+r.IntN(100))
			case strings.Contains(f, "interval"):
				doc = fmt.Sprintf(f, 100+r.IntN(5)*250)
			default:
				doc = fmt.Sprintf(f, 1000+r.IntN(5)*4096)
			}
		}
		p.Changes = append(p.Changes, CompChange{Doc: doc, Valid: true})
	}
	switch r.IntN(6) {
	case 0:
		p.Override = "listen"
	case 1:
		p.Override = "level"
	case 2:
		p.Override = "cache_dir"
	}
	if r.IntN(5) == 0 {
		p.Destroy = []string{"cache-first", "logger-first", "ctx-then-cache", "ctx-early"}[r.IntN(4)]
	}
	if faults {
		// the short-write offset is enumerated by run index, so a batch covers every byte of the file
		p.PersistAt = 1 + int(currentSeed&0xffffffff)/2%1400
		p.Hasty = r.IntN(3) == 0 && p.Destroy == ""
		if r.IntN(2) == 0 && len(p.Changes) > 0 && p.Destroy == "" {
			// the operator tries the same update again once the disk is writable
			p.Retry = true
			p.Changes = append(p.Changes, p.Changes[len(p.Changes)-1])
		}
	} else if r.IntN(5) == 0 {
		p.Concurrent = true
		p.Destroy, p.Override = "", ""
		p.Changes = nil
		same := -1
		if r.IntN(2) == 0 {
			same = r.IntN(4)
		}
		one := func(refusedOK bool) CompChange {
			kind := r.IntN(4)
			if same >= 0 {
				kind = same
			}
			if refusedOK && r.IntN(3) == 0 {
				return CompChange{Doc: []string{`{"cache":{"max_cache_size":"0B"}}`, `{"cache":{"cleanup_interval":"0s"}}`, `{"logging":{"level":"LOUD"}}`, `{"cache":{"memory":{"memory_budget_percent":101}}}`}[kind], Valid: false}
			}
			switch kind {
			case 0:
				return CompChange{Doc: fmt.Sprintf(`{"cache":{"max_cache_size":"%dB"}}`, 1000+r.IntN(9)*4096), Valid: true}
			case 1:
				return CompChange{Doc: fmt.Sprintf(`{"cache":{"cleanup_interval":"%dms"}}`, 100+r.IntN(9)*250), Valid: true}
			case 2:
				return CompChange{Doc: fmt.Sprintf(`{"logging":{"level":"%s"}}`, lvls[r.IntN(4)]), Valid: true}
			}
			return CompChange{Doc: fmt.Sprintf(`{"cache":{"memory":{"memory_budget_percent":%d}}}`, 1+r.IntN(100)), Valid: true}
		}
		for i := 0; i < 1+r.IntN(2); i++ {
			p.Changes = append(p.Changes, one(false))
		}
		for i := 0; i < 1+r.IntN(2); i++ {
			p.Changes2 = append(p.Changes2, one(true))
		}
	} else if r.IntN(2) == 0 {
		// back-to-back accepted changes of the same settings
		p.Rapid = true
		p.Destroy = ""
		p.Changes = nil
		// half of the bursts change one and the same setting every time
		same := -1
		if r.IntN(2) == 0 {
			same = r.IntN(4)
		}
		if r.IntN(2) == 0 {
			// and in half of them one of the first asynchronous tasks (the janitor, a notification) is
			// held back at some point of its early life until everything else has happened
			p.Pol.DelayTask = 1 + r.IntN(3)
			p.Pol.DelayAt = 1 + r.IntN(7)
		}
		for i := 0; i < 2+r.IntN(3); i++ {
			var doc string
			kind := r.IntN(4)
			if same >= 0 {
				kind = same
			}
			switch kind {
			case 0:
				doc = fmt.Sprintf(`{"cache":{"max_cache_size":"%dB"}}`, 1000+r.IntN(9)*4096)
			case 1:
				doc = fmt.Sprintf(`{"cache":{"cleanup_interval":"%dms"}}`, 100+r.IntN(9)*250)
			case 2:
				doc = fmt.Sprintf(`{"logging":{"level":"%s"}}`, lvls[r.IntN(4)])
			default:
				doc = fmt.Sprintf(`{"cache":{"memory":{"memory_budget_percent":%d}}}`, 1+r.IntN(100))
			}
			p.Changes = append(p.Changes, CompChange{Doc: doc, Valid: true})
		}
	}
	return p
}

type compState struct {
	reads    map[string]string
	file     string
	maxSize  int64
	interval time.Duration
	memCap   int64
	level    slog.Level
}

func runCompPlan(t *testing.T, planAny any, ctl Ctl) *Result {
	p := planAny.(*CompPlan)
	res := newResult()
	dir := newRunDir()
	os.Chdir(dir)
	os.MkdirAll(filepath.Join(dir, "var"), 0o755)
	defer os.RemoveAll(dir)
	defer slog.SetDefault(slog.New(slog.DiscardHandler))
	defer logging.VerifReset()
	tbl := propTable()
	var sig []string
	for _, c := range p.Changes {
		sig = append(sig, c.Doc)
	}
	history := strings.Join(sig, " ; ")
	if p.Concurrent {
		sig = nil
		for _, c := range p.Changes2 {
			sig = append(sig, c.Doc)
		}
		history += "  ||  " + strings.Join(sig, " ; ")
	}
	bubble(t, res, func() {
		metrics.Global = metrics.NewMetrics()
		s := zzsim.New(ctl.Seed, racePol(p.Pol))
		if ctl.Replay != nil {
			s.SetReplay(ctl.Replay, ctl.Guided)
		}
		s.Attach()
		defer s.Detach()
		s.Exempt()
		path := filepath.Join("var", "config.json")
		cfg, err := config.LoadOrDefault(path)
		if err != nil {
			panic(err)
		}
		cfg.Logging.File.Stage("")
		cfg.Logging.File.CommitStaged()
		cfg.Cache.MaxCacheSize.Stage(bytesize.ByteSize(1 << 30))
		cfg.Cache.MaxCacheSize.CommitStaged()
		cfg.Cache.CleanupInterval.Stage(duration.Duration(time.Hour))
		cfg.Cache.CleanupInterval.CommitStaged()
		if p.Override == "listen" {
			cfg.Proxy.Listen.Overwrite(":1234")
		}
		if p.Override == "cache_dir" {
			cfg.Cache.File.Dir.Overwrite(filepath.Join(dir, "cli-cache"))
		}
		if p.Override == "level" {
			cfg.Logging.Level.Overwrite(slog.LevelError)
		}
		config.UpdatePartialFromConfig(cfg, map[string]any{}) // write the starting file
		ctx, cancel := context.WithCancel(context.Background())
		var c cache.Cache[CMeta]
		if p.Backend == "file" {
			c = cache.NewFileCache[CMeta](cfg, filepath.Join(dir, "cache"), cfg.Cache.MaxCacheSize.Read().Bytes(), cfg.Cache.CleanupInterval.Read().Cast(), 4, ctx)
		} else {
			c = cache.NewMemoryCache[CMeta](cfg, cfg.Cache.Memory.MemoryBudgetPercent.Read(), cfg.Cache.MaxCacheSize.Read().Bytes(), cfg.Cache.CleanupInterval.Read().Cast(), 4, ctx)
		}
		logging.Init(cfg)
		// recording subscribers on a few properties (the "every component that follows them" clause)
		var calls []string
		subs := []event.Unsubscribe{
			cfg.Cache.MaxCacheSize.OnChange(func(v bytesize.ByteSize) { lockedAppend(&calls, fmt.Sprintf("max=%d", v.Bytes())) }),
			cfg.Cache.CleanupInterval.OnChange(func(v duration.Duration) { lockedAppend(&calls, fmt.Sprintf("interval=%d", int64(v))) }),
			cfg.Cache.Memory.MemoryBudgetPercent.OnChange(func(v int) { lockedAppend(&calls, fmt.Sprintf("mem=%d", v)) }),
			cfg.Logging.Level.OnChange(func(v slog.Level) { lockedAppend(&calls, fmt.Sprintf("level=%d", int(v))) }),
			cfg.Cache.Type.OnChange(func(v config.CacheType) { lockedAppend(&calls, "type="+string(v)) }),
			cfg.Proxy.Listen.OnChange(func(v string) { lockedAppend(&calls, "listen="+v) }),
		}
		_ = subs
		s.Unexempt()
		snapshot := func() compState {
			st := compState{reads: map[string]string{}}
			for _, ps := range tbl {
				st.reads[pathKey(ps.Path)] = ps.read(cfg)
			}
			b, _ := os.ReadFile(path)
			st.file = string(b)
			st.maxSize = cache.VerifMaxSize(c)
			st.interval = cache.VerifInterval(c)
			st.memCap = cache.VerifMemoryCap(c)
			st.level = logging.VerifLevel()
			return st
		}
		settle := func() { s.WaitUntil("harness:settle", time.Now().Add(time.Millisecond)) }
		// At every step of the schedule, what the components would read is a configuration the proxy
		// can run under: a value that is going to be refused must not be in force even for a moment
		// (a cleanup cycle or a late notification handler that falls into that moment acts on it).
		unworkableSeen := ""
		inUpdate := -1                 // index of the update being applied, as the scheduler sees it
		seenDuring := map[string]bool{} // what a component would have read at the steps of that update
		s.OnStep = func(step int) {
			s.Exempt()
			lim, iv, pct, sh := cfg.Cache.MaxCacheSize.Read().Bytes(), cfg.Cache.CleanupInterval.Read().Cast(), cfg.Cache.Memory.MemoryBudgetPercent.Read(), cfg.Cache.LockShards.Read()
			lst, dir := cfg.Proxy.Listen.Read(), cfg.Cache.File.Dir.Read()
			lvl := cfg.Logging.Level.Read()
			s.Unexempt()
			if inUpdate >= 0 {
				seenDuring[fmt.Sprintf("limit=%d interval=%v budget=%d%% shards=%d listen=%s dir=%s level=%v", lim, iv, pct, sh, lst, dir, lvl)] = true
			}
			switch {
			case unworkableSeen != "":
			case lim <= 0:
				unworkableSeen = fmt.Sprintf("cache.max_cache_size=%d", lim)
			case iv <= 0:
				unworkableSeen = fmt.Sprintf("cache.cleanup_interval=%v", iv)
			case pct < 0 || pct > 100:
				unworkableSeen = fmt.Sprintf("cache.memory.memory_budget_percent=%d", pct)
			case sh < 1:
				unworkableSeen = fmt.Sprintf("cache.lock_shards=%d", sh)
			case lst == "":
				unworkableSeen = "proxy.listen empty"
			case dir == "":
				unworkableSeen = "cache.file.dir empty"
			}
			if unworkableSeen != "" && !strings.Contains(unworkableSeen, " at step ") {
				unworkableSeen += fmt.Sprintf(" at step %d", step)
			}
		}
		defer func() {
			if unworkableSeen != "" {
				res.violate("C18.a", "unworkable-value-in-force: "+strings.SplitN(unworkableSeen, "=", 2)[0], "while the updates were applied the running configuration held %s, a value no accepted update ever set [history: %s]", unworkableSeen, history)
			}
		}()
		cacheDestroyed, loggerDestroyed := false, false
		var destroyedState [3]int64
		var callsAtDestroy int
		var restartCleanup func()
		s.Spawn("actor:config", func() {
			settle()
			lastMax, lastInt, lastLvl, lastPct := cfg.Cache.MaxCacheSize.Read().Bytes(), cfg.Cache.CleanupInterval.Read().Cast(), cfg.Logging.Level.Read(), cfg.Cache.Memory.MemoryBudgetPercent.Read()
			startCap := cache.VerifMemoryCap(c)
			startPct := lastPct
			start := snapshot()
			faultIdx := len(p.Changes) - 1
			if p.Retry {
				faultIdx--
			}
			if p.Destroy == "ctx-early" {
				// the process context ends before any change and the cache is never shut down explicitly:
				// its janitor task is gone but still subscribed. Whatever that does to the janitor's own
				// notifications, the other listeners of the same settings must get theirs.
				cancel()
				settle()
				cacheDestroyed = true
				destroyedState = [3]int64{cache.VerifMaxSize(c), int64(cache.VerifInterval(c)), cache.VerifMemoryCap(c)}
			}
			if p.Concurrent {
				// what each operator was told, in the order of its submissions
				accepted := [2][]bool{make([]bool, len(p.Changes)), make([]bool, len(p.Changes2))}
				var doneN atomic.Int32
				for a, list := range [][]CompChange{p.Changes, p.Changes2} {
					s.Spawn(fmt.Sprintf("actor:operator-%d", a), func() {
						for i, ch := range list {
							var doc map[string]any
							if err := json.Unmarshal([]byte(ch.Doc), &doc); err != nil {
								panic("bad plan document: " + ch.Doc)
							}
							st, uerr := config.UpdatePartialFromConfig(cfg, doc)
							accepted[a][i] = uerr == nil && st != config.UpdateStatusFailed
						}
						doneN.Add(1)
					})
				}
				for doneN.Load() < 2 {
					settle()
				}
				for i := 0; i < 8; i++ {
					settle()
				}
				res.Probes["concurrent_updates"]++
				fin := snapshot()
				res.Evals++
				// the values each setting may hold now: for each operator the one of its last accepted
				// update of that setting; the starting value if nobody's update of it was accepted
				may := map[string]map[string]bool{}
				for a, list := range [][]CompChange{p.Changes, p.Changes2} {
					lastOf := map[string]string{}
					for i, ch := range list {
						if accepted[a][i] != ch.Valid {
							if ch.Valid {
								res.violate("C18.b", "valid-update-rejected (concurrent updates): "+updateClass(ch.Doc), "update %s was rejected while another operator's update was being applied [history: %s]", ch.Doc, history)
							} else {
								res.violate("C18.a", "unworkable-update-accepted (concurrent updates): "+updateClass(ch.Doc), "update %s was accepted [history: %s]", ch.Doc, history)
							}
						}
						if !accepted[a][i] || !ch.Valid {
							continue
						}
						var doc map[string]any
						json.Unmarshal([]byte(ch.Doc), &doc)
						if v, ok := getPath(doc, []string{"cache", "max_cache_size"}); ok {
							n, _ := refSize(v.(string))
							lastOf["cache.max_cache_size"] = strconv.FormatInt(n, 10)
						}
						if v, ok := getPath(doc, []string{"cache", "cleanup_interval"}); ok {
							d, _ := time.ParseDuration(v.(string))
							lastOf["cache.cleanup_interval"] = strconv.FormatInt(int64(d), 10)
						}
						if v, ok := getPath(doc, []string{"logging", "level"}); ok {
							var l slog.Level
							l.UnmarshalText([]byte(v.(string)))
							lastOf["logging.level"] = strconv.Itoa(int(l))
						}
						if v, ok := getPath(doc, []string{"cache", "memory", "memory_budget_percent"}); ok {
							lastOf["cache.memory.memory_budget_percent"] = strconv.Itoa(int(v.(float64)))
						}
					}
					for k, v := range lastOf {
						if may[k] == nil {
							may[k] = map[string]bool{}
						}
						may[k][v] = true
					}
				}
				var keys []string
				for k := range start.reads {
					keys = append(keys, k)
				}
				sort.Strings(keys)
				for _, k := range keys {
					got := fin.reads[k]
					if may[k] == nil {
						if got != start.reads[k] {
							res.violate("C18.a", "refused-update-had-effects (concurrent updates): "+k, "no accepted update named %s, it went from %s to %s [history: %s]", k, start.reads[k], got, history)
						}
						continue
					}
					if !may[k][got] {
						var vs []string
						for v := range may[k] {
							vs = append(vs, v)
						}
						sort.Strings(vs)
						res.violate("C18.b", "accepted-update-not-in-force (concurrent updates): "+k, "%s is %s after both operators were told their updates were accepted; their last accepted values are %v (it was %s at the start) [history: %s]", k, got, vs, start.reads[k], history)
					}
				}
				// what is in force is what the next start loads
				ncfg, lerr := config.LoadOrDefault(path)
				if lerr != nil {
					res.violate("C18.b", "accepted-config-does-not-load (concurrent updates)", "LoadOrDefault: %v [history: %s]", lerr, history)
				} else {
					for _, ps := range tbl {
						k := pathKey(ps.Path)
						if got := ps.read(ncfg); got != fin.reads[k] {
							res.violate("C18.b", "next-start-loads-other-value (concurrent updates): "+k, "running with %s=%s, the next start loads %s [history: %s]", k, fin.reads[k], got, history)
						}
					}
				}
				// and the components follow what is in force
				if fmt.Sprint(fin.maxSize) != fin.reads["cache.max_cache_size"] {
					res.violate("C19.c", "cache-limit-not-latest (concurrent updates)", "the cache enforces limit %d, the setting in force is %s [history: %s]", fin.maxSize, fin.reads["cache.max_cache_size"], history)
				}
				if fmt.Sprint(int64(fin.interval)) != fin.reads["cache.cleanup_interval"] {
					res.violate("C19.c", "cleanup-interval-not-latest (concurrent updates)", "the janitor uses interval %v, the setting in force is %s ns [history: %s]", fin.interval, fin.reads["cache.cleanup_interval"], history)
				}
				if fmt.Sprint(int(fin.level)) != fin.reads["logging.level"] {
					res.violate("C19.c", "log-level-not-latest (concurrent updates)", "the logger filters at %v, the setting in force is %s [history: %s]", fin.level, fin.reads["logging.level"], history)
				}
				return
			}
			for i, ch := range p.Changes {
				if i == len(p.Changes)-1 && p.Destroy != "" {
					if p.Destroy == "cache-first" || p.Destroy == "ctx-then-cache" {
						if p.Destroy == "ctx-then-cache" {
							// the process context ends first (the janitor task returns), Destroy comes afterwards
							cancel()
							settle()
							settle()
						}
						c.Destroy()
						cacheDestroyed = true
						settle()
						destroyedState = [3]int64{cache.VerifMaxSize(c), int64(cache.VerifInterval(c)), cache.VerifMemoryCap(c)}
						cache.VerifDrainIntervalChan(c)
					} else {
						logging.VerifReset()
						loggerDestroyed = true
					}
					settle()
					callsAtDestroy = len(calls)
				}
				var doc map[string]any
				if err := json.Unmarshal([]byte(ch.Doc), &doc); err != nil {
					panic("bad plan document: " + ch.Doc)
				}
				if p.Rapid || (p.Hasty && p.PersistAt > 0 && i == faultIdx-1 && ch.Valid) {
					// no waiting, no per-change snapshot: the notifications of earlier changes are still in flight
					if st, uerr := config.UpdatePartialFromConfig(cfg, doc); uerr != nil || st == config.UpdateStatusFailed {
						res.violate("C18.b", "valid-update-rejected: "+updateClass(ch.Doc), "update %s was rejected: %v [history: %s]", ch.Doc, uerr, history)
						continue
					}
					res.Probes["rapid_change"]++
					if v, ok := getPath(doc, []string{"cache", "max_cache_size"}); ok {
						lastMax, _ = refSize(v.(string))
					}
					if v, ok := getPath(doc, []string{"cache", "cleanup_interval"}); ok {
						lastInt, _ = time.ParseDuration(v.(string))
					}
					if v, ok := getPath(doc, []string{"logging", "level"}); ok && p.Override != "level" {
						lastLvl.UnmarshalText([]byte(v.(string)))
					}
					if v, ok := getPath(doc, []string{"cache", "memory", "memory_budget_percent"}); ok {
						lastPct = int(v.(float64))
					}
					continue
				}
				before := snapshot()
				ncalls := len(calls)
				restore := func() {}
				if p.PersistAt > 0 && i == faultIdx {
					restore = setFsizeLimit(uint64(p.PersistAt))
					if p.PersistAt < len(before.file) {
						res.Faults["persist_short_write"]++
					}
				}
				for k := range seenDuring {
					delete(seenDuring, k)
				}
				inUpdate = i
				st, uerr := config.UpdatePartialFromConfig(cfg, doc)
				inUpdate = -1
				restore()
				settle() // let every notification task run
				settle()
				after := snapshot()
				res.Evals++
				failed := uerr != nil || st == config.UpdateStatusFailed
				if failed && !p.Hasty {
					// C18.a, step by step: while an update that ends refused (or failed) was being applied,
					// nothing but the values in force before it may have been readable. (Not judged when an
					// earlier, accepted update was deliberately left unsettled: its values arrive meanwhile.)
					var other []string
					for k := range seenDuring {
						other = append(other, k)
					}
					sort.Strings(other)
					if len(other) > 1 {
						res.violate("C18.a", "refused-value-in-force-for-a-moment"+map[bool]string{true: " (file write failed)", false: ""}[p.PersistAt > 0 && i == faultIdx], "while update %s, which ended refused, was applied, components could read %d different configurations: %s [history: %s]", ch.Doc, len(other), strings.Join(other, " | "), history)
					}
				}
				if failed {
					res.Probes["update_rejected"]++
					// C18.a: nothing changed anywhere
					var diffs []string
					for k, v := range before.reads {
						if after.reads[k] != v {
							diffs = append(diffs, fmt.Sprintf("setting %s %s->%s", k, v, after.reads[k]))
						}
					}
					sort.Strings(diffs)
					if after.file != before.file {
						d := "config file rewritten"
						if !json.Valid([]byte(after.file)) {
							d = fmt.Sprintf("config file torn (%d of %d bytes)", len(after.file), len(before.file))
						}
						diffs = append(diffs, d)
					}
					// Listeners may be told to look again (the settings named by a refused update are
					// announced once more after the rollback), but only ever the values that are in force.
					inForce := map[string]bool{
						"max=" + after.reads["cache.max_cache_size"]: true, "interval=" + after.reads["cache.cleanup_interval"]: true,
						"mem=" + after.reads["cache.memory.memory_budget_percent"]: true, "level=" + after.reads["logging.level"]: true,
						"type=" + after.reads["cache.type"]: true, "listen=" + after.reads["proxy.listen"]: true,
					}
					for _, cl := range calls[ncalls:] {
						if !inForce[cl] && !(p.Hasty && p.PersistAt > 0 && i == faultIdx) {
							diffs = append(diffs, fmt.Sprintf("a listener was notified of %s, which is not in force", cl))
						}
					}
					hastyFault := p.Hasty && p.PersistAt > 0 && i == faultIdx
					if hastyFault {
						// the previous (accepted) change was still being delivered when this one came: the
						// components must end up with the accepted values, not with the refused ones
						res.Probes["refused_update_while_notifications_in_flight"]++
						if !cacheDestroyed && (after.maxSize != lastMax || after.interval != lastInt) {
							diffs = append(diffs, fmt.Sprintf("cache follows limit %d / interval %v, the accepted values are %d / %v", after.maxSize, after.interval, lastMax, lastInt))
						}
						if !loggerDestroyed && after.level != lastLvl {
							diffs = append(diffs, fmt.Sprintf("logger filters at %v, the accepted level is %v", after.level, lastLvl))
						}
						// (settings, file and subscriber calls of the previous change legitimately differ from 'before')
						diffs = diffs[:0:0]
						if !cacheDestroyed && (after.maxSize != lastMax || after.interval != lastInt) {
							diffs = append(diffs, fmt.Sprintf("cache follows limit %d / interval %v, the accepted values are %d / %v", after.maxSize, after.interval, lastMax, lastInt))
						}
						if !loggerDestroyed && after.level != lastLvl {
							diffs = append(diffs, fmt.Sprintf("logger filters at %v, the accepted level is %v", after.level, lastLvl))
						}
						if after.file != before.file {
							diffs = append(diffs, "config file rewritten")
						}
					} else {
						if !cacheDestroyed && (after.maxSize != before.maxSize || after.interval != before.interval || after.memCap != before.memCap) {
							diffs = append(diffs, fmt.Sprintf("cache follows new values (limit %d->%d, interval %v->%v)", before.maxSize, after.maxSize, before.interval, after.interval))
						}
						if !loggerDestroyed && after.level != before.level {
							diffs = append(diffs, fmt.Sprintf("log level %v->%v", before.level, after.level))
						}
					}
					if len(diffs) > 0 {
						cause := "invalid-document"
						if ch.Valid {
							cause = "persist-failed"
						}
						res.violate("C18.a", "rejected-update-had-effects ("+cause+"): "+updateClass(ch.Doc), "update %s was rejected (%v) but: %s [history: %s]", ch.Doc, uerr, strings.Join(diffs, "; "), history)
					}
					if !ch.Valid {
						continue
					}
					if p.PersistAt == 0 || i != faultIdx {
						res.violate("C18.b", "valid-update-rejected: "+updateClass(ch.Doc), "update %s was rejected: %v [history: %s]", ch.Doc, uerr, history)
					}
					continue
				}
				res.Probes["update_accepted"]++
				if !ch.Valid {
					res.violate("C18.a", "unworkable-update-accepted: "+updateClass(ch.Doc), "update %s was accepted [history: %s]", ch.Doc, history)
					continue
				}
				// C18.b: exactly the addressed settings changed
				addressed := map[string]bool{}
				for _, ps := range tbl {
					if _, ok := getPath(doc, ps.Path); ok {
						addressed[pathKey(ps.Path)] = true
					}
				}
				for k, v := range before.reads {
					if !addressed[k] && after.reads[k] != v {
						res.violate("C18.b", "unaddressed-setting-changed: "+k, "update %s changed %s from %s to %s [history: %s]", ch.Doc, k, v, after.reads[k], history)
					}
				}
				// C19.b: every live listener of a setting that changed has been notified of it
				got := map[string]bool{}
				for _, cl := range calls[ncalls:] {
					got[cl] = true
				}
				for k, wantCall := range map[string]string{
					"cache.max_cache_size":                "max=" + after.reads["cache.max_cache_size"],
					"cache.cleanup_interval":              "interval=" + after.reads["cache.cleanup_interval"],
					"cache.memory.memory_budget_percent": "mem=" + after.reads["cache.memory.memory_budget_percent"],
				} {
					if addressed[k] && before.reads[k] != after.reads[k] && !got[wantCall] {
						res.violate("C19.b", "listener-not-notified: "+k+destroyTag(p), "update %s changed %s to %s but a listener subscribed to it was not called (calls since the update: %v) [history: %s]", ch.Doc, k, after.reads[k], calls[ncalls:], history)
					}
				}
				// reference of what the components must follow (effective value: override wins)
				if v, ok := getPath(doc, []string{"cache", "max_cache_size"}); ok {
					n, _ := refSize(v.(string))
					lastMax = n
				}
				if v, ok := getPath(doc, []string{"cache", "cleanup_interval"}); ok {
					d, _ := time.ParseDuration(v.(string))
					lastInt = d
				}
				if v, ok := getPath(doc, []string{"logging", "level"}); ok && p.Override != "level" {
					var l slog.Level
					l.UnmarshalText([]byte(v.(string)))
					lastLvl = l
				}
				if v, ok := getPath(doc, []string{"cache", "memory", "memory_budget_percent"}); ok {
					lastPct = int(v.(float64))
				}
			}
			// ---- C19.c / C19.d at quiescence
			settle()
			settle()
			if p.Rapid {
				for i := 0; i < 6; i++ {
					settle()
				}
			}
			fin := snapshot()
			res.Evals++
			if !cacheDestroyed {
				if fin.maxSize != lastMax {
					res.violate("C19.c", "cache-limit-not-latest"+rapidTag(p), "the cache enforces limit %d, the most recent accepted (effective) value is %d [history: %s]", fin.maxSize, lastMax, history)
				}
				if fin.interval != lastInt {
					res.violate("C19.c", "cleanup-interval-not-latest"+rapidTag(p), "the janitor uses interval %v, the most recent accepted value is %v [history: %s]", fin.interval, lastInt, history)
				}
				if p.Backend == "memory" && startPct > 0 && lastPct > 0 {
					// relational: cap scales with the percentage
					want := float64(startCap) / float64(startPct) * float64(lastPct)
					if math.Abs(float64(fin.memCap)-want) > want*0.02+1 {
						res.violate("C19.c", "memory-budget-not-latest"+rapidTag(p), "memory cap %d does not correspond to %d%% (it was %d at %d%%) [history: %s]", fin.memCap, lastPct, startCap, startPct, history)
					}
				}
			}
			if cacheDestroyed && p.Destroy != "ctx-early" {
				// C19.d: a component that has been shut down is not notified of any later change
				res.Probes["change_after_cache_shutdown"]++
				now := [3]int64{cache.VerifMaxSize(c), int64(cache.VerifInterval(c)), cache.VerifMemoryCap(c)}
				if n := cache.VerifDrainIntervalChan(c); n > 0 {
					res.violate("C19.d", "shut-down-cache-notified ("+p.Destroy+")", "%d interval notification(s) were delivered to the janitor of a cache that had been shut down before the change [history: %s]", n, history)
				} else if now != destroyedState {
					res.violate("C19.d", "shut-down-cache-notified ("+p.Destroy+")", "the shut-down cache took in a later change: limit/interval/memory cap %v -> %v [history: %s]", destroyedState, now, history)
				}
			}
			if !loggerDestroyed && fin.level != lastLvl {
				res.violate("C19.c", "log-level-not-latest"+overrideTag(p, "level")+rapidTag(p), "the logger filters at %v, the most recent accepted (effective) value is %v [history: %s]", fin.level, lastLvl, history)
			}
			_ = callsAtDestroy
			// ---- C18.b/c: what was accepted is what the next start loads, and the proxy can run under it
			if p.PersistAt == 0 || p.Retry {
				if p.Retry {
					res.Probes["retry_after_persist_fault"]++
				}
				ncfg, lerr := config.LoadOrDefault(path)
				res.Evals++
				if lerr != nil {
					res.violate("C18.b", "accepted-config-does-not-load", "LoadOrDefault: %v [history: %s]", lerr, history)
				} else {
					for _, ps := range tbl {
						k := pathKey(ps.Path)
						want := fin.reads[k]
						if (p.Override == "listen" && k == "proxy.listen") || (p.Override == "level" && k == "logging.level") || (p.Override == "cache_dir" && k == "cache.file.dir") {
							continue // the running value is the command-line one; the file holds the base
						}
						if got := ps.read(ncfg); got != want {
							res.violate("C18.b", "next-start-loads-other-value: "+k, "running with %s=%s, the next start loads %s [history: %s]", k, want, got, history)
						}
					}
					// start a cache the way NewProxy does and use it once
					func() {
						defer func() {
							if r := recover(); r != nil {
								res.violate("C18.c", "accepted-config-cannot-start: "+panicClass(fmt.Sprint(r)), "starting a cache under the accepted configuration (type %s, lock_shards %d, max_cache_size %d, cleanup_interval %v) panicked: %v [history: %s]", ncfg.Cache.Type.Read(), ncfg.Cache.LockShards.Read(), ncfg.Cache.MaxCacheSize.Read().Bytes(), ncfg.Cache.CleanupInterval.Read().Cast(), r, history)
							}
						}()
						if n := ncfg.Cache.LockShards.Read(); n > 1<<24 {
							// do not try: the lock table alone would be hundreds of megabytes to terabytes
							panic(fmt.Sprintf("lock table with %d entries cannot be allocated", n))
						}
						ctx2, cancel2 := context.WithCancel(context.Background())
						var c2 cache.Cache[CMeta]
						restartCleanup = func() {
							cancel2()
							if c2 != nil {
								c2.Destroy()
							}
						}
						if ncfg.Cache.Type.Read() == config.CacheTypeFile {
							// in the directory the configuration names (relative ones lie under the run's directory)
							c2 = cache.NewFileCache[CMeta](ncfg, ncfg.Cache.File.Dir.Read(), ncfg.Cache.MaxCacheSize.Read().Bytes(), ncfg.Cache.CleanupInterval.Read().Cast(), ncfg.Cache.LockShards.Read(), ctx2)
						} else {
							c2 = cache.NewMemoryCache[CMeta](ncfg, ncfg.Cache.Memory.MemoryBudgetPercent.Read(), ncfg.Cache.MaxCacheSize.Read().Bytes(), ncfg.Cache.CleanupInterval.Read().Cast(), ncfg.Cache.LockShards.Read(), ctx2)
						}
						k := cache.FromString("restart-probe")
						if ent, err := c2.Cache(k, strings.NewReader("x"), time.Now().Add(time.Hour), CMeta{1, 1}); err == nil && ent != nil && ent.Data != nil {
							ent.Data.Close()
						}
						if ent, err := c2.Get(k); err == nil {
							ent.Data.Close()
						}
						settle()
						restartCleanup()
						restartCleanup = nil
						settle()
						res.Probes["restart_under_accepted_config"]++
						if _, err := os.Stat(path); err != nil {
							res.violate("C18.c", "start-under-accepted-config-deletes-the-config-file", "after a cache was started under the accepted configuration (type %s, cache.file.dir %q) the configuration file is gone: %v [history: %s]", ncfg.Cache.Type.Read(), ncfg.Cache.File.Dir.Read(), err, history)
						}
					}()
				}
			}
		})
		end := s.Run(func() bool { return s.TaskDone("actor:config") })
		finishSched(res, s, end)
		if bl := blockedHandlers(s); len(bl) > 0 {
			// notification handlers of the cleanup interval that wait for a cleanup task which will
			// never take what they bring (it has ended): they stay behind for ever
			res.violate("C19.d", "interval-handler-left-blocked"+map[bool]string{true: " (" + p.Destroy + ")", false: ""}[p.Destroy != ""], "%d notification handler(s) of cache.cleanup_interval are blocked for good: %s [history: %s]", len(bl), strings.Join(bl, ", "), history)
		}
		for _, pm := range s.Panics {
			res.violate("C18.a", "component-panicked: "+panicClass(pm), "a task following the configuration panicked: %s [history: %s]", pm, history)
		}
		if end == "stuck" {
			res.violate("C14.a", "stuck config", "%s", s.Stuck)
		}
		cancel()
		if !cacheDestroyed {
			c.Destroy()
		}
		if restartCleanup != nil {
			restartCleanup() // the run ended before the actor got to it
		}
		logging.VerifReset() // closes the file writer (its goroutine lives in this bubble)
		s.Drain(func(string) bool { return true })
		for i := 0; i < 20; i++ {
			synctest.Wait()
			if cache.VerifDrainIntervalChan(c) == 0 {
				break
			}
		}
	})
	res.Nontrivial = true
	return res
}

func destroyTag(p *CompPlan) string {
	if p.Destroy != "" {
		return " (" + p.Destroy + ")"
	}
	return ""
}

func rapidTag(p *CompPlan) string {
	if p.Rapid {
		return " (back-to-back changes, notifications reordered)"
	}
	return ""
}

func lockedAppend(calls *[]string, s string) {
	resMu.Lock()
	defer resMu.Unlock()
	*calls = append(*calls, s)
}

func overrideTag(p *CompPlan, what string) string {
	if p.Override == what {
		return " (command-line override in force)"
	}
	return ""
}

func panicClass(s string) string {
	switch {
	case strings.Contains(s, "non-positive interval"):
		return "ticker-reset-non-positive"
	case strings.Contains(s, "divide by zero"):
		return "divide-by-zero"
	case strings.Contains(s, "index out of range"):
		return "index-out-of-range"
	}
	return "other"
}

// updateClass names the keys of an update document and whether values are valid-looking.
func updateClass(doc string) string {
	var m map[string]any
	if json.Unmarshal([]byte(doc), &m) != nil {
		return "unparseable"
	}
	var keys []string
	var walk func(prefix string, v any)
	walk = func(prefix string, v any) {
		if mm, ok := v.(map[string]any); ok {
			ks := make([]string, 0, len(mm))
			for k := range mm {
				ks = append(ks, k)
			}
			sort.Strings(ks)
			for _, k := range ks {
				walk(prefix+"."+k, mm[k])
			}
			return
		}
		keys = append(keys, strings.TrimPrefix(prefix, ".")+"="+fmt.Sprint(v))
	}
	walk("", m)
	return strings.Join(keys, ",")
}

func shrinkCompPlan(planAny any) []any {
	p := planAny.(*CompPlan)
	var out []any
	for i := range p.Changes {
		if len(p.Changes) > 1 {
			q := *p
			q.Changes = append(append([]CompChange{}, p.Changes[:i]...), p.Changes[i+1:]...)
			out = append(out, &q)
		}
	}
	for i := range p.Changes2 {
		if len(p.Changes2) > 1 {
			q := *p
			q.Changes2 = append(append([]CompChange{}, p.Changes2[:i]...), p.Changes2[i+1:]...)
			out = append(out, &q)
		}
	}
	if p.Override != "" {
		q := *p
		q.Override = ""
		out = append(out, &q)
	}
	if p.Destroy != "" {
		q := *p
		q.Destroy = ""
		out = append(out, &q)
	}
	if p.Backend == "file" {
		q := *p
		q.Backend = "memory"
		out = append(out, &q)
	}
	return out
}

func init() {
	register(&Scenario{Name: "cfg-roundtrip", Gen: func(r *rand.Rand, tier string) any { return genCfgPlan(r) }, Decode: decodeInto[CfgPlan], Run: runCfgPlan, Shrink: shrinkCfgPlan})
	register(&Scenario{Name: "cfg-sizes", Gen: func(r *rand.Rand, tier string) any { return genSizePlan(r, tier) }, Decode: decodeInto[ParserPlan], Run: runSizePlan,
		Shrink: func(planAny any) []any {
			p := planAny.(*ParserPlan)
			if len(p.Items) <= 1 {
				return nil
			}
			h := len(p.Items) / 2
			return []any{&ParserPlan{Kind: p.Kind, Items: p.Items[:h]}, &ParserPlan{Kind: p.Kind, Items: p.Items[h:]}}
		}})
	register(&Scenario{Name: "event", Gen: func(r *rand.Rand, tier string) any { return genEventPlan(r) }, Decode: decodeInto[EventPlan], Run: runEventPlan, Shrink: shrinkEventPlan})
	register(&Scenario{Name: "component", Gen: func(r *rand.Rand, tier string) any { return genCompPlan(r, false) }, Decode: decodeInto[CompPlan], Run: runCompPlan, Shrink: shrinkCompPlan})
	register(&Scenario{Name: "component-fault", Gen: func(r *rand.Rand, tier string) any { return genCompPlan(r, true) }, Decode: decodeInto[CompPlan], Run: runCompPlan, Shrink: shrinkCompPlan})
}
