package zzharness

// C07: Range / If-Range inputs, bounded-exhaustive over a small alphabet plus
// boundary numbers, through the running proxy with an origin that ignores Range.

import (
	"fmt"
	"math"
	"math/rand/v2"
	"regexp"
	"strconv"
	"strings"
)

var currentSeed uint64 // set by the batch loop before Gen: enumerating generators index by it

var rangeAlphabet = []byte{'0', '1', '9', '-', ',', ' ', 'x'}

const rangeEnumMax = 1 + 7 + 49 + 343 + 2401 + 16807 // strings of length 0..5

func rangeEnum(i int) string {
	// length-lexicographic enumeration over rangeAlphabet
	n, l, cnt := i, 0, 1
	for n >= cnt {
		n -= cnt
		cnt *= 7
		l++
	}
	b := make([]byte, l)
	for k := l - 1; k >= 0; k-- {
		b[k] = rangeAlphabet[n%7]
		n /= 7
	}
	return "bytes=" + string(b)
}

var rangeSpecials = []string{
	"bytes", "bytes=", "bytes=5", "bytes=-", "bytes=--", "bytes=0-", "bytes=0-0", "bytes=-0", "bytes=-1", "bytes=1-0",
	"items=0-4", "Bytes=0-4", "BYTES=0-4", "bytes =0-4", "bytes= 0-4", "bytes=0 -4", "bytes=0- 4", "bytes=0-4 ", " bytes=0-4",
	"bytes=0-4,6-8", "bytes=0-4, 6-8", "bytes=,0-4", "bytes=0-4,", "bytes=-2,-1",
	"bytes=2147483648-", "bytes=0-2147483648", "bytes=9223372036854775807-", "bytes=0-9223372036854775807",
	"bytes=9223372036854775808-", "bytes=0-9223372036854775808", "bytes=18446744073709551615-", "bytes=0-18446744073709551615",
	"bytes=18446744073709551616-", "bytes=0-18446744073709551616", "bytes=18446744073709551621-18446744073709551625", "bytes=0-18446744073709551621",
	"bytes=-18446744073709551616", "bytes=-18446744073709551617", "bytes=-9223372036854775808", "bytes=-9223372036854775809",
	"bytes=123456789012345678901234567890-", "bytes=0-123456789012345678901234567890", "bytes=-123456789012345678901234567890",
	"bytes=00000000000000000000000000001-00000000000000000000000000003", "bytes=+1-3", "bytes=1-+3", "bytes=0x1-0x3", "bytes=1.0-3", "bytes=1e0-3",
	"bytes=0-4;q=1", "bytes=0-4-", "bytes=0--4", "bytes=\t0-4", "bytes=0-4\t", "=0-4", "bytes==0-4", "bytes=0-4=",
}

func init() {
	// numbers around the points where a decimal accumulator overflows int64 / uint64: every
	// 19-digit prefix next to MaxInt64/10 and MaxUint64/10, each following digit, a few tails
	for _, prefix := range []string{"922337203685477580", "922337203685477579", "1844674407370955161", "1844674407370955160"} {
		for d := 0; d <= 9; d++ {
			for _, tail := range []string{"", "0", "5", "99"} {
				n := prefix + strconv.Itoa(d) + tail
				rangeSpecials = append(rangeSpecials, "bytes=0-"+n, "bytes="+n+"-", "bytes=-"+n)
			}
		}
	}
}

func genRangePlan(r *rand.Rand, tier string) *ProxyPlan {
	idx := int(currentSeed & 0xffffffff)
	p := &ProxyPlan{Family: "range"}
	p.Backend = []string{"memory", "file"}[idx%2]
	p.Shards = 4
	p.MaxSize = 1 << 40
	p.IntervalMs = 1000 * 3600 * 1000
	p.Transport = "plain"
	if idx%7 == 3 {
		p.Transport = "connect"
	}
	p.DefaultAgeS = 3600
	p.RetryRange = (idx/2)%2 == 1
	p.Retry416 = (idx/4)%2 == 1
	p.Pol = seqPolicy()
	size := []int{0, 1, 2, 10, 1000}[(idx/8)%5]
	rs := PRes{Host: "origin.test", Path: "/r", Size: size, CC: []string{"max-age=600"}, ETag: []string{"strong", "strong", "weak", ""}[(idx/40)%4], LastMod: (idx/160)%2 == 0, RangeMode: "ignore"}
	if (idx/320)%5 == 4 {
		rs.RangeMode = "416"
	}
	if (idx/320)%5 == 3 {
		rs.RangeMode = "honor"
	}
	// the origin declares no length (chunked) in a third of the settings: the stored head then has no
	// Content-Length of its own
	rs.NoLength = (idx/1600)%3 == 2
	p.Res = []PRes{rs}
	reqs := []PReq{{Res: 0}}
	const per = 24
	// every run takes its own block of the enumeration; the settings above cycle with the
	// low bits of the index, so each string meets many settings over a thorough batch
	block := idx
	total := rangeEnumMax + len(rangeSpecials)
	for k := 0; k < per; k++ {
		var rg string
		j := (block*(per/2) + k)
		if tier == "thorough" {
			j = block*per + k
		}
		if tier == "thorough" || k < per/2 {
			j = j % total
			if j < len(rangeSpecials) {
				rg = rangeSpecials[j]
			} else {
				rg = rangeEnum(j - len(rangeSpecials))
			}
		} else {
			// random: numbers around the size and 64-bit boundaries
			nums := []string{"0", "1", strconv.Itoa(max(size-1, 0)), strconv.Itoa(size), strconv.Itoa(size + 1), "9223372036854775807", "18446744073709551616", strconv.Itoa(r.IntN(2000))}
			a, b := nums[r.IntN(len(nums))], nums[r.IntN(len(nums))]
			switch r.IntN(5) {
			case 0:
				rg = "bytes=" + a + "-"
			case 1:
				rg = "bytes=-" + a
			case 2:
				rg = "bytes=" + a + "-" + b + "," + b + "-"
			default:
				rg = "bytes=" + a + "-" + b
			}
		}
		q := PReq{Res: 0, Range: rg, SameConn: r.IntN(2) == 0}
		switch r.IntN(12) {
		case 0:
			q.IfRange = "@etag"
		case 1:
			q.IfRange = `"other-etag"`
		case 2:
			q.IfRange = "@lastmod"
		case 3:
			q.IfRange = "Thu, 30 Dec 1999 00:00:00 GMT" // earlier than any Last-Modified
		case 4:
			q.IfRange = "Sat, 01 Jan 2005 00:00:00 GMT" // later
		case 5:
			q.IfRange = "garbage"
		case 6:
			q.IfRange = `W/"r0-v1"`
		case 7:
			// degenerate values: empty, a lone quote, a weak prefix without a tag, one character
			q.IfRange = []string{"@empty", `"`, "W/", "x", `""`}[r.IntN(5)]
		}
		reqs = append(reqs, q)
	}
	p.Clients = [][]PReq{reqs}
	return p
}

func judgeRange(w *proxyWorld, res *Result) {
	pd := fmt.Sprintf("%s retry_invalid=%v retry_416=%v origin=%s", planDesc(w.p), w.p.RetryRange, w.p.Retry416, w.p.Res[0].RangeMode)
	for _, ex := range w.exch {
		if ex.Req.Range == "" || !ex.Sent {
			continue
		}
		res.Evals++
		desc := fmt.Sprintf("Range %q If-Range %q size %d", ex.Req.Range, ifRangeSent(ex), w.p.Res[ex.Req.Res].Size)
		cls := rangeClass(ex.Req.Range)
		if !ex.Complete {
			res.violate("C07.c", "dropped: "+cls, "%s: no complete response (%s) [%s]", desc, ex.Err, pd)
			continue
		}
		o := w.attrib(ex)
		if o == nil {
			if ex.Status == 416 || ex.Status >= 500 {
				// proxy-generated page: no origin id
			} else {
				continue // judged by C01.d
			}
		}
		size := int64(w.p.Res[ex.Req.Res].Size)
		syntaxOK := refRangeSyntax(ex.Req.Range)
		// strictly well-formed input: the RFC slice. Anything else: the statement only says
		// "never a different slice", so a lenient reading (whitespace removed, trailing junk
		// after the first range-spec ignored) is accepted as the slice the client can have meant.
		a, b, wellFormed := refLenientRange(ex.Req.Range, size)
		switch ex.Status {
		case 206:
			res.Probes["range_206"]++
			if o != nil && o.Status == 206 {
				continue // relayed slice built by the origin
			}
			cr := contentRangeRe.FindStringSubmatch(ex.Hdr.Get("Content-Range"))
			if cr == nil {
				res.violate("C07.a", "no-content-range: "+cls, "%s: 206 with Content-Range %q [%s]", desc, ex.Hdr.Get("Content-Range"), pd)
				continue
			}
			ga, _ := strconv.ParseInt(cr[1], 10, 64)
			gb, _ := strconv.ParseInt(cr[2], 10, 64)
			gs, _ := strconv.ParseInt(cr[3], 10, 64)
			if gs != size || ga < 0 || ga > gb || gb >= size {
				res.violate("C07.a", "content-range-outside: "+cls, "%s: Content-Range %s does not lie inside the %d-byte representation [%s]", desc, cr[0], size, pd)
				continue
			}
			if cl := ex.Hdr.Get("Content-Length"); cl != strconv.FormatInt(gb-ga+1, 10) || int64(len(ex.Body)) != gb-ga+1 {
				res.violate("C07.a", "length-mismatch: "+cls, "%s: Content-Range %s, Content-Length %q, %d body bytes [%s]", desc, cr[0], cl, len(ex.Body), pd)
				continue
			}
			if wellFormed && (ga != a || gb != b) {
				res.violate("C07.b", "wrong-slice: "+cls, "%s: served bytes %d-%d, the range denotes %d-%d [%s]", desc, ga, gb, a, b, pd)
			} else if !wellFormed {
				// a 206 for something that denotes no satisfiable single range under any reading
				res.violate("C07.b", "slice-for-unserved-range: "+cls, "%s: served bytes %d-%d for a Range that is not a satisfiable single byte range [%s]", desc, ga, gb, pd)
			}
			_ = syntaxOK
			if m := ifRangeMismatch(w, ex); m != "" {
				res.violate("C07.d", "if-range-mismatch-served-206: "+m, "%s: If-Range does not match the stored validator (%s) but a 206 was served [%s]", desc, m, pd)
			}
		case 416:
			res.Probes["range_416"]++
			if o != nil && o.Status == 416 {
				continue // the origin's own refusal, relayed
			}
			if cr := ex.Hdr.Get("Content-Range"); cr != fmt.Sprintf("bytes */%d", size) {
				res.violate("C07.c", "416-without-size: "+cls, "%s: 416 with Content-Range %q, expected bytes */%d [%s]", desc, cr, size, pd)
			}
			// "an If-Range that does not match the stored validator yields the full 200": the Range is
			// then not looked at at all, whatever it says
			if m := ifRangeMismatch(w, ex); m != "" {
				res.violate("C07.d", "if-range-mismatch-answered-416: "+m, "%s: If-Range does not match the stored validator (%s) but the Range was evaluated and refused with 416 [%s]", desc, m, pd)
			}
		case 200:
			res.Probes["range_200"]++
			// "the full 200": the whole representation, and nothing that announces a slice
			if cr := ex.Hdr.Get("Content-Range"); cr != "" {
				res.violate("C07.c", "full-200-announces-a-slice: "+cls, "%s: answered 200 with Content-Range %q [%s]", desc, cr, pd)
			}
			if int64(len(ex.Body)) != size && ex.Method != "HEAD" {
				res.violate("C07.c", "full-200-is-not-the-full-body: "+cls, "%s: answered 200 with %d body bytes, the representation has %d [%s]", desc, len(ex.Body), size, pd)
			}
		default:
			res.violate("C07.c", fmt.Sprintf("status-%d: %s", ex.Status, cls), "%s: proxy answered %d [%s]", desc, ex.Status, pd)
		}
	}
	for _, l := range w.srvLog {
		if strings.Contains(l, "panic serving") {
			res.Probes["handler_panic"]++
		}
	}
	res.Nontrivial = true
}

func ifRangeSent(ex *Exch) string { return ex.Req.IfRange }

// ifRangeMismatch returns a reason when the If-Range the client sent certainly
// does not match the validators of the stored response.
func ifRangeMismatch(w *proxyWorld, ex *Exch) string {
	v := ex.Req.IfRange
	if v == "" || v[0] == '@' {
		return ""
	}
	switch v {
	case `"other-etag"`:
		return "other-etag"
	case "garbage":
		return "garbage"
	case "Thu, 30 Dec 1999 00:00:00 GMT":
		if w.p.Res[ex.Req.Res].LastMod {
			return "earlier-date"
		}
	case "Sat, 01 Jan 2005 00:00:00 GMT":
		if w.p.Res[ex.Req.Res].LastMod {
			return "later-date"
		}
	}
	return ""
}

var lenientRangeRe = regexp.MustCompile(`^bytes=(\d*)-(\d*)`)

func satParse(x string) int64 {
	var n int64
	for _, c := range x {
		d := int64(c - '0')
		if n > (math.MaxInt64-d)/10 {
			return math.MaxInt64
		}
		n = n*10 + d
	}
	return n
}

// refLenientRange: RFC 9110 single-range semantics applied to the first range-spec of the
// value after removing SP/HTAB; numbers saturate at MaxInt64. ok=false: no satisfiable range.
func refLenientRange(s string, size int64) (a, b int64, ok bool) {
	s = strings.NewReplacer(" ", "", "\t", "").Replace(s)
	m := lenientRangeRe.FindStringSubmatch(s)
	if m == nil {
		return 0, 0, false
	}
	rest := s[len(m[0]):]
	if strings.HasPrefix(rest, ",") {
		return 0, 0, false // multiple ranges: the proxy does not serve these
	}
	first, last := m[1], m[2]
	if first == "" {
		if last == "" {
			return 0, 0, false
		}
		n := satParse(last)
		if n == 0 || size == 0 {
			return 0, 0, false
		}
		if n > size {
			n = size
		}
		return size - n, size - 1, true
	}
	a = satParse(first)
	if a >= size {
		return 0, 0, false
	}
	if last == "" {
		return a, size - 1, true
	}
	b = satParse(last)
	if b < a {
		return 0, 0, false
	}
	if b >= size {
		b = size - 1
	}
	return a, b, true
}

// refRangeSyntax: RFC 9110 ranges-specifier with exactly one int-range or suffix-range.
func refRangeSyntax(s string) bool {
	if !strings.HasPrefix(s, "bytes=") {
		return false
	}
	spec := s[len("bytes="):]
	i := strings.IndexByte(spec, '-')
	if i < 0 {
		return false
	}
	digits := func(x string) bool {
		if x == "" {
			return false
		}
		for _, c := range x {
			if c < '0' || c > '9' {
				return false
			}
		}
		return true
	}
	first, last := spec[:i], spec[i+1:]
	if first == "" {
		return digits(last)
	}
	return digits(first) && (last == "" || digits(last))
}

// rangeClass abstracts a Range string for known-finding matching.
func rangeClass(s string) string {
	if !strings.HasPrefix(s, "bytes=") {
		if s == "bytes" {
			return "no-equals"
		}
		return "other-unit"
	}
	spec := s[len("bytes="):]
	var b strings.Builder
	prevDigit := false
	ndig := 0
	for _, c := range spec {
		if c >= '0' && c <= '9' {
			ndig++
			if !prevDigit {
				b.WriteByte('N')
			}
			prevDigit = true
			continue
		}
		if prevDigit && ndig > 18 {
			b.WriteString("(huge)")
		}
		prevDigit = false
		ndig = 0
		switch c {
		case ' ', '\t':
			b.WriteByte('_')
		default:
			b.WriteRune(c)
		}
	}
	if prevDigit && ndig > 18 {
		b.WriteString("(huge)")
	}
	if b.Len() == 0 {
		return "empty-spec"
	}
	return b.String()
}

func init() {
	register(&Scenario{Name: "range", Gen: func(r *rand.Rand, tier string) any { return genRangePlan(r, tier) }, Decode: decodeInto[ProxyPlan], Run: runProxyPlan, Shrink: shrinkProxyPlan})
}
