package zzharness

// Oracles over the recorded client exchanges and the origin log.

import (
	"bytes"
	"encoding/json"
	"fmt"
	"math"
	"net/http"
	"regexp"
	"strconv"
	"strings"
	"time"
)

func (w *proxyWorld) contacts(ex *Exch) []*OLog {
	var out []*OLog
	for _, o := range w.olog {
		if o.Seq > ex.SendSeq && o.Seq < ex.RecvSeq {
			out = append(out, o)
		}
	}
	return out
}

func (w *proxyWorld) attrib(ex *Exch) *OLog {
	if ex.Hdr == nil {
		return nil
	}
	v := ex.Hdr.Get("X-Sim-Resp")
	if v == "" {
		return nil
	}
	n, err := strconv.Atoi(v)
	if err != nil || n < 0 || n >= len(w.olog) {
		return nil
	}
	return w.olog[n]
}

func label(ex *Exch) string {
	if ex.Hdr == nil {
		return ""
	}
	// the proxy's own member is the last one (the origin's chain may have sent lines of its own)
	x, cs := lastValue(ex.Hdr, "X-Cache"), lastValue(ex.Hdr, "Cache-Status")
	switch {
	case x == "HIT" || (strings.Contains(cs, "; hit") && !strings.Contains(cs, "revalidated")):
		return "HIT"
	case x == "REVALIDATED" || strings.Contains(cs, "revalidated"):
		return "REVALIDATED"
	case x == "MISS" || strings.Contains(cs, "; miss"):
		return "MISS"
	}
	return ""
}

func lastValue(h http.Header, k string) string {
	if v := h.Values(k); len(v) > 0 {
		return v[len(v)-1]
	}
	return ""
}

func labelsConsistent(ex *Exch) bool {
	x, cs := lastValue(ex.Hdr, "X-Cache"), lastValue(ex.Hdr, "Cache-Status")
	if x == "" && cs == "" {
		return true
	}
	switch x {
	case "HIT":
		return strings.Contains(cs, "; hit") && !strings.Contains(cs, "revalidated")
	case "REVALIDATED":
		return strings.Contains(cs, "revalidated")
	case "MISS":
		return strings.Contains(cs, "; miss")
	}
	return false
}

var contentRangeRe = regexp.MustCompile(`^bytes (\d+)-(\d+)/(\d+)$`)
var ttlRe = regexp.MustCompile(`ttl=(-?\d+)`)

func reqDesc(ex *Exch) string {
	m := ex.Method
	s := fmt.Sprintf("c%d#%d %s res%d", ex.Client, ex.Idx, m, ex.Req.Res)
	if ex.Req.Range != "" {
		s += " Range:" + ex.Req.Range
	}
	return s
}

func planDesc(p *ProxyPlan) string {
	return fmt.Sprintf("%s/%s ignoreCC=%v force=%v default=%ds", p.Transport, p.Backend, p.IgnoreCC, p.ForceDef, p.DefaultAgeS)
}

// wantedRes returns the resource id a request names (wild: hash of target).
func (w *proxyWorld) wantedRes(ex *Exch) int {
	r := &w.p.Res[ex.Req.Res]
	if !r.Wild {
		return ex.Req.Res
	}
	return -2 // judged by C02's own oracle
}

// judgeBodies is C01.d: every completely framed 200/206 to a GET is one origin
// body of the requested resource with that body's own metadata.
func judgeBodies(w *proxyWorld, res *Result) {
	for _, ex := range w.exch {
		if !ex.Complete || ex.Method != "GET" || (ex.Status != 200 && ex.Status != 206) || ex.Req.Raw != "" {
			continue
		}
		res.Evals++
		o := w.attrib(ex)
		where := fmt.Sprintf("%s [%s]", reqDesc(ex), planDesc(w.p))
		if o == nil {
			res.violate("C01.d", w.p.Transport+" unattributable", "%d response carries no origin response id (X-Sim-Resp), cannot be one origin response: %s", ex.Status, where)
			continue
		}
		// C01 speaks about responses built from the store; a relayed response is C08's
		cs := ex.Hdr.Get("Cache-Status")
		fromStore := strings.Contains(cs, "hit") || strings.Contains(cs, "stored") || (ex.Status == 206 && o.Status == 200)
		rule := "C01.d"
		if !fromStore {
			rule = "C08.a"
		}
		if fromStore && ex.Status == 200 && o.Status == 200 && !o.Aborted {
			// C08 covers responses from the store too: the head the origin sent with that body, and no
			// framing header it never sent
			if cr := ex.Hdr.Get("Content-Range"); cr != "" && o.RespHdr.Get("Content-Range") == "" {
				res.violate("C08.a", w.p.Transport+" store-built-200-carries-content-range", "200 from the store carries Content-Range %q, which origin response #%d did not: %s", cr, o.N, where)
			}
			if cl := ex.Hdr.Get("Content-Length"); cl != "" && cl != strconv.Itoa(len(o.RespBody)) {
				res.violate("C08.a", w.p.Transport+" store-built-200-content-length", "200 from the store declares Content-Length %s, origin response #%d has %d body bytes: %s", cl, o.N, len(o.RespBody), where)
			}
		}
		want := w.wantedRes(ex)
		if want >= 0 && o.Res != want {
			res.violate(rule, w.p.Transport+" other-resource", "response to %s is origin response #%d of resource %d: %s", reqDesc(ex), o.N, o.Res, where)
			continue
		}
		exp := o.RespBody
		kind := "full"
		if ex.Status == 206 {
			cr := contentRangeRe.FindStringSubmatch(ex.Hdr.Get("Content-Range"))
			if cr == nil {
				res.violate(rule, w.p.Transport+" 206-without-content-range", "206 with Content-Range %q: %s", ex.Hdr.Get("Content-Range"), where)
				continue
			}
			a, _ := strconv.ParseInt(cr[1], 10, 64)
			b, _ := strconv.ParseInt(cr[2], 10, 64)
			size, _ := strconv.ParseInt(cr[3], 10, 64)
			if o.Status == 200 {
				if size != int64(len(o.RespBody)) || a > b || b >= size {
					res.violate(rule, w.p.Transport+" bad-content-range", "Content-Range %s does not lie inside the %d-byte origin body: %s", cr[0], len(o.RespBody), where)
					continue
				}
				exp = o.RespBody[a : b+1]
				kind = "slice"
			}
		} else if o.Status != 200 {
			res.violate(rule, w.p.Transport+" status-mismatch", "client got 200 but origin response #%d was %d: %s", o.N, o.Status, where)
			continue
		}
		if o.Aborted {
			res.violate(rule, w.p.Transport+" aborted-transfer-served", "a completely framed %d was built from origin response #%d whose transfer was aborted: %s", ex.Status, o.N, where)
			continue
		}
		if !bytes.Equal(ex.Body, exp) {
			d := firstDiff(ex.Body, exp)
			res.violate(rule, w.p.Transport+" "+w.p.Backend+" body-"+kind+"-mismatch", "body (%d bytes) differs from origin response #%d (%d bytes) at byte %d: %s", len(ex.Body), o.N, len(exp), d, where)
			continue
		}
		if cl := ex.Hdr.Get("Content-Length"); cl != "" && cl != strconv.Itoa(len(ex.Body)) {
			res.violate(rule, w.p.Transport+" content-length", "Content-Length %s but %d body bytes: %s", cl, len(ex.Body), where)
		}
		for _, k := range []string{"ETag", "Last-Modified", "Content-Type"} {
			ov := o.RespHdr.Get(k)
			if ov == "" {
				continue
			}
			if cv := ex.Hdr.Get(k); cv != ov {
				res.violate(rule, w.p.Transport+" mispaired-"+strings.ToLower(k), "%s is %q but origin response #%d carried %q: %s", k, cv, o.N, ov, where)
			}
		}
	}
	// C01.e: a request that starts after an entry was replaced never receives the replaced
	// body. Origin response o2 is known to have been in the store before o1 was even
	// requested if some client had received o2 by then; once a client has then received o1
	// from the store (o1 replaced o2), a later-starting request must not be served o2.
	firstSeen := map[int]int64{}
	for _, x := range w.exch {
		if o := w.attrib(x); o != nil && x.Complete && x.RecvSeq > 0 {
			if cur, ok := firstSeen[o.N]; !ok || x.RecvSeq < cur {
				firstSeen[o.N] = x.RecvSeq
			}
		}
	}
	for _, e1 := range w.exch {
		o1 := w.attrib(e1)
		if o1 == nil || !e1.Complete || e1.Status != 200 || e1.Method != "GET" || o1.Status != 200 {
			continue
		}
		cs1 := e1.Hdr.Get("Cache-Status")
		if !strings.Contains(cs1, "stored") && !strings.Contains(cs1, "hit") {
			continue
		}
		for _, e2 := range w.exch {
			if e2.SendSeq < e1.RecvSeq || !e2.Complete || e2.Status != 200 || e2.Method != "GET" || e2.Req.Range != "" {
				continue
			}
			o2 := w.attrib(e2)
			if o2 == nil || o2.N == o1.N || o2.Res != o1.Res || e1.Req.Res != e2.Req.Res || label(e2) != "HIT" {
				continue
			}
			if seen, ok := firstSeen[o2.N]; ok && seen < o1.Seq {
				res.violate("C01.e", w.p.Transport+" "+w.p.Backend+" replaced-body-served", "%s (sent after %s had received origin response #%d, version %d, from the store) was served response #%d, version %d, which had been stored before #%d was requested and was therefore replaced by it [%s]", reqDesc(e2), reqDesc(e1), o1.N, o1.Ver, o2.N, o2.Ver, o1.N, planDesc(w.p))
			}
		}
	}
}

// judgeServerLog: a recovered handler panic is a dropped connection for the client.
func judgeServerLog(w *proxyWorld, res *Result) {
	for _, l := range w.srvLog {
		if strings.Contains(l, "panic serving") {
			first := l
			if i := strings.IndexByte(first, '\n'); i > 0 {
				first = first[:i]
			}
			res.violate("C16.b", "handler panic", "request handler panicked: %s", first)
			break
		}
	}
}

// ---------------------------------------------------------------------------
// sequential reference state machine: C03, C04, C06

type seqTimes struct{ lo, hi time.Time }

type seqState struct {
	times      map[int]seqTimes // store-instant bounds per origin response
	alts       []*OLog // after exchanges with several origin answers: the entry may still be one of these
	stored     *OLog
	storable   int
	lo, hi     time.Time // store instant bounds
	freshLo    time.Time
	freshHi    time.Time
	freshKnown bool
	renewed304 bool // the current lifetime comes from a 304 revalidation
	present    bool // the reference knows an entry must still be present (inert janitor, big cache)
}

// seqPolicy is the cache policy in force, which update documents can change while the run goes on.
type seqPol struct {
	IgnoreCC, ForceDef bool
	Def                time.Duration
	Changed            bool
	Retry416           bool
	RetryChanged       bool // retry_on_range_416 was set by an update while the proxy was running
}

func (sp *seqPol) apply(doc string) {
	var m map[string]any
	if json.Unmarshal([]byte(doc), &m) != nil {
		return
	}
	px, _ := m["proxy"].(map[string]any)
	if v, ok := px["retry_on_range_416"].(bool); ok {
		sp.Retry416, sp.RetryChanged = v, true
	}
	cp, ok := px["cache_policy"].(map[string]any)
	if !ok {
		return
	}
	if v, ok := cp["ignore_cache_control"].(bool); ok {
		sp.IgnoreCC = v
	}
	if v, ok := cp["force_default_max_age"].(bool); ok {
		sp.ForceDef = v
	}
	if v, ok := cp["default_max_age"].(string); ok {
		if d, err := time.ParseDuration(v); err == nil {
			sp.Def = d
		}
	}
	sp.Changed = true
}

func judgeSequential(w *proxyWorld, res *Result) {
	p0 := w.p
	pol := &seqPol{IgnoreCC: p0.IgnoreCC, ForceDef: p0.ForceDef, Def: time.Duration(p0.DefaultAgeS) * time.Second, Retry416: p0.Retry416}
	// p mirrors the plan with the policy currently in force (helpers take a *ProxyPlan)
	pc := *p0
	p := &pc
	def := pol.Def
	before := len(res.Violations)
	defer func() {
		// a wrong outcome after a run-time policy change also means a component did not follow the latest setting
		if pol.Changed {
			for _, v := range res.Violations[before:] {
				if strings.HasPrefix(v.Rule, "C03.") || strings.HasPrefix(v.Rule, "C04.") {
					res.violate("C19.c", "cache-policy-switch-not-followed", "after a run-time change of the cache policy: %s", v.Msg)
					break
				}
			}
		}
	}()
	inert := p.IntervalMs >= 1000*3600*1000
	states := map[int]*seqState{}
	pd := planDesc(p)
	for _, ex := range w.exch {
		if ex.Req.Cfg != "" {
			if ex.CfgErr != "" {
				res.violate("C18.b", "valid-update-rejected: "+updateClass(ex.Req.Cfg), "update %s: %s", ex.Req.Cfg, ex.CfgErr)
				continue
			}
			wasChanged := pol.Changed
			pol.Changed = false
			pol.apply(ex.Req.Cfg)
			if !pol.Changed {
				pol.Changed = wasChanged
				continue // not a cache-policy change: the stored entries keep their meaning
			}
			p.IgnoreCC, p.ForceDef, p.DefaultAgeS = pol.IgnoreCC, pol.ForceDef, int64(pol.Def/time.Second)
			def = pol.Def
			pd = planDesc(p) + " (policy changed at run time)"
			// what the new policy means for entries stored under the old one is not stated:
			// they are not judged until they have been stored again
			for _, st := range states {
				st.freshKnown, st.renewed304 = false, false
				st.storable = storeMay
			}
			continue
		}
		if ex.Req.Raw != "" || ex.Req.Evict || !ex.Sent {
			continue
		}
		r := &p.Res[ex.Req.Res]
		if r.Wild || r.Redirect > 0 {
			continue
		}
		st := states[ex.Req.Res]
		if st == nil {
			st = &seqState{}
			states[ex.Req.Res] = st
		}
		cons := w.contacts(ex)
		res.Evals++
		desc := reqDesc(ex)
		hdrs := strings.Join(r.CC, " | ")
		if r.Expires != "" {
			hdrs += " Expires:" + r.Expires
		}
		if !ex.Complete {
			// a dropped or failed exchange is C09's business; keep the model in step
			for _, o := range cons {
				seqAbsorb(w, p, st, o, ex, def)
			}
			continue
		}
		if p.MaxSize < 1<<30 && !(ex.Method == "GET" && ex.Req.Range != "") {
			// a cache too small for the representation (plans made for the 416-retry rules): the
			// reference for stored responses does not apply, everything is relayed
			continue
		}
		if ex.Status == 304 && !clientSentConditional(ex) {
			res.violate("C06.e", "unsolicited-304", "%s sent no conditional header but received 304 (without a body); origin requests for it: %s [%s]", desc, originSummary(cons), pd)
		}
		if ex.Method == "GET" && ex.Req.Range != "" {
			// a Range request: what it is answered with is C07's business. Here: what the origin was
			// asked, that the client gets the origin's last answer, and what is stored afterwards.
			if len(cons) > 0 {
				first, last := cons[0], cons[len(cons)-1]
				if first.Status == 416 && first.Hdr.Get("Range") != "" && pol.RetryChanged {
					retried := len(cons) > 1 && cons[1].Hdr.Get("Range") == ""
					if retried != pol.Retry416 {
						res.violate("C19.c", "retry-switch-not-followed", "%s: retry_on_range_416 was set to %v by an accepted update, the origin answered 416 and the proxy %s [origin requests: %s] [%s]", desc, pol.Retry416, map[bool]string{true: "asked again without Range", false: "did not ask again"}[retried], originSummary(cons), pd)
					}
				}
				if len(cons) > 1 && last.Hdr.Get("Range") == "" && (ex.Status != last.Status || !bytes.Equal(ex.Body, last.RespBody)) {
					res.violate("C08.a", "retried-answer-not-relayed", "%s: the origin answered 416 and then %d (%d bytes) to the request repeated without Range; the client received %d with %d body bytes [%s]", desc, last.Status, len(last.RespBody), ex.Status, len(ex.Body), pd)
				}
				for _, c := range cons[1:] {
					// the retry without Range was answered 200 in full: that is the client's answer, also when
					// the cache cannot take it (then the proxy must not fall back to the refused request)
					if c.Hdr.Get("Range") == "" && c.Status == 200 && !c.Aborted && first.Status == 416 && ex.Status == 416 {
						if _, _, sat := refLenientRange(ex.Req.Range, int64(len(c.RespBody))); sat {
							res.violate("C09.a", "416-although-the-retry-was-answered-200", "%s: the origin answered 416 and then 200 (%d bytes) to the request repeated without Range; the client received 416 [origin requests: %s] [%s]", desc, len(c.RespBody), originSummary(cons), pd)
						}
						break
					}
				}
				if len(cons) == 1 && first.Status == 416 && (ex.Status != 416 || !bytes.Equal(ex.Body, first.RespBody)) {
					res.violate("C08.a", "origin-416-not-relayed", "%s: the origin answered 416 (%d bytes), the client received %d with %d body bytes [%s]", desc, len(first.RespBody), ex.Status, len(ex.Body), pd)
				}
				for _, c := range cons {
					if c.Marker && c.Status == 304 && st.stored != nil && st.present && st.storable == storeMust && len(st.alts) == 0 && !(ex.Status == 304 && clientSentConditional(ex)) {
						// the proxy used a 304 that answered the client's validator as if it had answered the stored one
						res.violate("C06.b", "client-validator-forwarded (Range request, 304 used for the stored entry)", "origin request #%d for %s carried the client's conditional header %v; the origin's 304 was not relayed to the client but taken as a revalidation of stored response #%d [%s]", c.N, desc, condHdrs(c.Hdr), st.stored.N, pd)
					}
					if c.Status == 200 && c.Method == "GET" && c.Hdr.Get("Range") == "" {
						st.alts = nil // a plain 200: stored (or not) like after any miss
					}
					seqAbsorb(w, p, st, c, ex, def)
				}
				st.present = inert && p.MaxSize >= 1<<30
				res.Probes["range_request_reached_origin"]++
			}
			continue
		}
		if ex.Method != "GET" {
			if len(cons) == 0 && ex.Status < 500 {
				res.violate("C04.a", "non-GET-served-without-origin", "%s was answered %d without contacting the origin [%s]", desc, ex.Status, pd)
			}
			continue
		}
		lbl := label(ex)
		if ex.Status == 200 && !labelsConsistent(ex) {
			res.violate("C03.b", "labels-disagree", "X-Cache %q and Cache-Status %q disagree: %s [%s]", ex.Hdr.Get("X-Cache"), ex.Hdr.Get("Cache-Status"), desc, pd)
		}
		if len(cons) == 0 {
			// answered without the origin
			if ex.Status != 200 {
				continue
			}
			o := w.attrib(ex)
			res.Probes["served_without_origin"]++
			if lbl != "HIT" {
				res.violate("C03.b", "unlabelled-hit", "%s was answered without contacting the origin but is labelled %q (Cache-Status %q) [%s]", desc, ex.Hdr.Get("X-Cache"), ex.Hdr.Get("Cache-Status"), pd)
			}
			if o == nil {
				continue // C01.d reports it
			}
			if st.isAlt(o) {
				continue // the model does not know which of several responses is stored
			}
			if st.stored == nil || st.stored.N != o.N {
				// served an older stored response than the model's current one: C01.e/C06.d territory
				if st.stored != nil && o.N < st.stored.N {
					res.violate("C06.d", "old-body-after-replacement", "%s was served origin response #%d although #%d had replaced it [%s]", desc, o.N, st.stored.N, pd)
				}
				continue
			}
			if st.storable == storeMustNot {
				res.violate("C04.a", "reused-unstorable: "+storableWhy(o, p), "%s was answered from the store with origin response #%d (%s %d; %s) which must not be reused [%s]", desc, o.N, o.Method, o.Status, hdrDesc(o.RespHdr), pd)
			}
			if st.freshKnown && ex.SendT.After(st.freshHi) {
				res.violate("C03.a", "stale-served: "+lifetimeWhy(o, p), "%s at +%v was answered without contacting the origin, but the stored response (#%d, %s, stored at +%v) was fresh only until +%v [%s]", desc, ex.SendT.Sub(w.start), o.N, hdrDesc(o.RespHdr), st.lo.Sub(w.start), st.freshHi.Sub(w.start), pd)
			}
			// C03.c Age / ttl
			if a := ex.Hdr.Get("Age"); a != "" {
				age, err := strconv.Atoi(a)
				lo := int(math.Floor(ex.SendT.Sub(st.hi).Seconds()))
				hi := int(math.Ceil(ex.RecvT.Sub(st.lo).Seconds()))
				// A response that was already old when it arrived (its Date lies in the past) may be
				// given the age RFC 9111 computes: that initial age plus the time in the store.
				if dt, derr := http.ParseTime(o.RespHdr.Get("Date")); derr == nil && o.T.After(dt) {
					hi += int(math.Ceil(o.T.Sub(dt).Seconds()))
				}
				if err != nil || age < lo || age > hi {
					res.violate("C03.c", "age-inconsistent", "%s: Age %q but the response was stored between +%v and +%v and served at +%v (expected %d..%d) [%s]", desc, a, st.lo.Sub(w.start), st.hi.Sub(w.start), ex.SendT.Sub(w.start), lo, hi, pd)
				}
			} else {
				res.violate("C03.c", "age-missing", "%s: HIT without Age header [%s]", desc, pd)
			}
			if m := ttlRe.FindStringSubmatch(ex.Hdr.Get("Cache-Status")); m != nil && st.freshKnown {
				ttl, _ := strconv.Atoi(m[1])
				lo := int(math.Floor(st.freshLo.Sub(ex.RecvT).Seconds())) - 1
				hi := int(math.Ceil(st.freshHi.Sub(ex.SendT).Seconds()))
				if ttl < 0 || ttl < lo || ttl > hi {
					res.violate("C03.c", "ttl-inconsistent: "+lifetimeWhy(o, p), "%s: ttl=%d but the entry is fresh until +%v..+%v and it is +%v (expected %d..%d) [%s]", desc, ttl, st.freshLo.Sub(w.start), st.freshHi.Sub(w.start), ex.SendT.Sub(w.start), lo, hi, pd)
				}
			}
			continue
		}
		// the origin was contacted
		res.Probes["origin_contacted"]++
		if lbl == "HIT" {
			res.violate("C03.b", "hit-label-with-origin-contact", "%s is labelled HIT but the origin received %d request(s) for it [%s]", desc, len(cons), pd)
		}
		if st.stored != nil && st.renewed304 && st.freshKnown && st.present && ex.RecvT.Before(st.freshLo) && len(st.alts) == 0 {
			res.violate("C06.c", "lifetime-not-renewed-by-304", "%s at +%v contacted the origin although response #%d was revalidated (304) and thereby renewed until +%v [%s]", desc, ex.SendT.Sub(w.start), st.stored.N, st.freshLo.Sub(w.start), pd)
		} else if st.stored != nil && st.storable == storeMust && st.freshKnown && st.present && ex.RecvT.Before(st.freshLo) {
			res.violate("C04.b", "storable-not-reused: "+storableWhy(st.stored, p), "%s at +%v contacted the origin although response #%d (%s) is storable and fresh until +%v [%s]", desc, ex.SendT.Sub(w.start), st.stored.N, hdrDesc(st.stored.RespHdr), st.freshLo.Sub(w.start), pd)
		}
		first := cons[0]
		// C08.b: what the proxy fetches on the client's behalf after a revalidation that could not
		// be used carries the client's request, not the validators of the stored entry
		if len(cons) > 1 && first.Cond && first.Status != 304 && first.Status != 200 && !clientSentConditional(ex) {
			for _, o := range cons[1:] {
				if o.Cond && !o.Marker {
					res.violate("C08.b", "validators-added-to-client-request", "%s: after the revalidation was answered %d the proxy fetched again for the client with %v, which the client never sent [%s]", desc, first.Status, condHdrs(o.Hdr), pd)
					break
				}
			}
		}
		// C06.b: when the stored entry is revalidated, the client's own validators do not travel in
		// place of (or next to) the stored ones. Judged when the entry is certainly there, i.e. the
		// first origin request of this exchange is a revalidation; what is forwarded on a plain miss
		// is outside the statement.
		if st.stored != nil && st.present && st.storable == storeMust && len(st.alts) == 0 && first.Marker {
			res.violate("C06.b", "client-validator-forwarded", "origin request #%d for %s revalidates stored response #%d but carries the client's conditional header: %v [%s]", first.N, desc, st.stored.N, condHdrs(first.Hdr), pd)
		}
		// C06.a: a conditional request carries exactly the stored validators
		if st.stored != nil {
			se, sl := st.stored.RespHdr.Get("ETag"), dateValidator(st.stored.RespHdr)
			if first.Cond && st.altValidators(first) {
				// validators of another candidate: fine
			} else if first.Cond && !first.Marker {
				res.Probes["revalidation_conditional"]++
				if inm := first.Hdr.Get("If-None-Match"); se != "" && inm != se {
					res.violate("C06.a", "wrong-etag-validator", "revalidation of %s sent If-None-Match %q, stored response #%d has ETag %q [%s]", desc, inm, st.stored.N, se, pd)
				} else if se == "" && inm != "" {
					res.violate("C06.a", "invented-etag-validator", "revalidation of %s sent If-None-Match %q, stored response #%d has no ETag [%s]", desc, inm, st.stored.N, pd)
				}
				if ims := first.Hdr.Get("If-Modified-Since"); sl != "" && ims != sl {
					res.violate("C06.a", "wrong-lastmod-validator", "revalidation of %s sent If-Modified-Since %q, stored response #%d has Last-Modified %q [%s]", desc, ims, st.stored.N, sl, pd)
				} else if sl == "" && ims != "" {
					// a date the origin never issued (the proxy's own clock at the time of the store): an
					// origin that compares it with its modification time answers 304 for a change made
					// while its clock is behind the proxy's
					res.violate("C06.a", "invented-lastmod-validator", "revalidation of %s sent If-Modified-Since %q, stored response #%d has no Last-Modified [%s]", desc, ims, st.stored.N, pd)
				}
			} else if !first.Cond && st.present && inert && st.storable == storeMust && st.freshKnown && ex.SendT.After(st.freshHi) && (se != "" || sl != "") {
				res.violate("C06.a", "stale-entry-not-revalidated", "%s found response #%d stale (validators ETag %q Last-Modified %q) but the origin was asked unconditionally [%s]", desc, st.stored.N, se, sl, pd)
			}
		}
		// what the client must have received
		last := cons[len(cons)-1]
		o := w.attrib(ex)
		switch {
		case first.Status == 304 && first.Cond && st.stored != nil:
			res.Probes["revalidated_304"]++
			// C06.c: stored body stays in service
			if ex.Status == 200 && o != nil && o.N != st.stored.N && len(cons) == 1 && st.isAlt(o) {
				// the 304 tells which of the candidate responses is the stored one
				st.stored = o
				if tm, ok := st.times[o.N]; ok {
					st.lo, st.hi = tm.lo, tm.hi
				}
			} else if ex.Status == 200 && o != nil && o.N != st.stored.N && len(cons) == 1 {
				res.violate("C06.c", "304-served-other-body", "%s was revalidated with 304 but the client received origin response #%d instead of the stored #%d [%s]", desc, o.N, st.stored.N, pd)
			}
			if ex.Status == 200 && len(cons) == 1 && lbl != "REVALIDATED" {
				res.violate("C06.c", "304-not-labelled-revalidated", "%s was revalidated with 304 but is labelled %q [%s]", desc, ex.Hdr.Get("X-Cache"), pd)
			}
			if ex.Status >= 500 && len(cons) == 1 {
				res.violate("C06.c", "304-became-error", "%s: origin answered 304 to the revalidation, client received %d [%s]", desc, ex.Status, pd)
			}
		case last.Status == 200:
			if ex.Status == 200 && o != nil && o.Ver < last.Ver && o.Res == last.Res {
				res.violate("C06.d", "old-body-after-200", "%s: origin answered 200 with version %d, client received version %d (#%d) [%s]", desc, last.Ver, o.Ver, o.N, pd)
			}
		default:
			// C06.e: any other answer is relayed
			if last.Status != 304 {
				res.Probes["revalidation_other_status"]++
				ok := false
				for _, c := range cons {
					if ex.Status == c.Status && bytes.Equal(ex.Body, c.RespBody) {
						ok = true
					}
				}
				if !ok {
					var sts []string
					for _, c := range cons {
						sts = append(sts, strconv.Itoa(c.Status))
					}
					res.violate("C06.e", "origin-answer-not-relayed", "%s: origin answered %s, client received %d with %d body bytes [%s]", desc, strings.Join(sts, ","), ex.Status, len(ex.Body), pd)
				}
			}
		}
		prev := st.stored
		for _, c := range cons {
			seqAbsorb(w, p, st, c, ex, def)
		}
		oldAlts := st.alts
		st.alts = nil
		if len(cons) > 1 && first.Status != 200 && first.Status != 304 {
			// the first answer was relayed-not-stored; the proxy fetched again for this
			// client, and the statement does not say whether that second answer is stored
			st.alts = append(oldAlts, prev)
			st.freshKnown = false
			if st.storable == storeMust {
				st.storable = storeMay
			}
		}
		st.present = inert && p.MaxSize >= 1<<30
	}
}

func (st *seqState) isAlt(o *OLog) bool {
	for _, a := range st.alts {
		if a != nil && a.N == o.N {
			return true
		}
	}
	return false
}

func (st *seqState) altValidators(req *OLog) bool {
	for _, a := range st.alts {
		if a == nil {
			continue
		}
		if req.Hdr.Get("If-None-Match") == a.RespHdr.Get("ETag") && (dateValidator(a.RespHdr) == "" || req.Hdr.Get("If-Modified-Since") == dateValidator(a.RespHdr)) {
			return true
		}
	}
	return false
}

// seqAbsorb updates the reference state with one origin answer.
func seqAbsorb(w *proxyWorld, p *ProxyPlan, st *seqState, o *OLog, ex *Exch, def time.Duration) {
	switch {
	case o.Status == 200 && o.Method == "GET" && o.Hdr.Get("Range") == "":
		st.stored = o
		st.lo, st.hi = o.T, ex.RecvT
		if ex.RecvT.IsZero() {
			st.hi = o.T
		}
		if st.times == nil {
			st.times = map[int]seqTimes{}
		}
		st.times[o.N] = seqTimes{st.lo, st.hi}
		if o.Aborted {
			st.storable = storeMustNot
			st.freshKnown = false
			return
		}
		st.renewed304 = false
		st.storable = refStorable(o.Method, o.Status, o.RespHdr, o.T, p.IgnoreCC, false)
		d := refParse(o.RespHdr)
		lo, k1 := refFreshUntil(d, st.lo, p.ForceDef, def, p.IgnoreCC)
		hi, k2 := refFreshUntil(d, st.hi, p.ForceDef, def, p.IgnoreCC)
		st.freshLo, st.freshHi, st.freshKnown = lo, hi, k1 && k2
	case o.Status == 200 && o.Method == "GET":
		// a full answer to a request that carried Range: the statement does not say whether it is stored
		st.alts = append(st.alts, st.stored)
		st.stored = o
		st.lo, st.hi = o.T, ex.RecvT
		if ex.RecvT.IsZero() {
			st.hi = o.T
		}
		if st.times == nil {
			st.times = map[int]seqTimes{}
		}
		st.times[o.N] = seqTimes{st.lo, st.hi}
		st.storable, st.freshKnown, st.renewed304 = storeMay, false, false
	case o.Status == 304 && st.stored != nil && o.Marker:
		// the origin confirmed the client's own validator, not the stored response: nothing is renewed
	case o.Status == 304 && st.stored != nil:
		st.freshLo = o.T.Add(def)
		hi := ex.RecvT
		if hi.IsZero() {
			hi = o.T
		}
		st.freshHi = hi.Add(def)
		st.freshKnown = true
		st.renewed304 = true
		if st.storable == storeMustNot {
			st.storable = storeMay
		}
	default:
		// not stored; a stale entry stays stale
	}
}

func clientSentConditional(ex *Exch) bool {
	for _, kv := range ex.Req.Hdr {
		switch http.CanonicalHeaderKey(kv[0]) {
		case "If-None-Match", "If-Modified-Since", "If-Match", "If-Unmodified-Since":
			return true
		}
	}
	return false
}

func originSummary(cons []*OLog) string {
	var o []string
	for _, c := range cons {
		s := fmt.Sprintf("#%d->%d", c.N, c.Status)
		if c.Cond {
			s += "(conditional)"
		}
		o = append(o, s)
	}
	return strings.Join(o, " ")
}

func hdrDesc(h http.Header) string {
	var parts []string
	for _, k := range []string{"Cache-Control", "Expires", "Etag", "Last-Modified"} {
		for _, v := range h[k] {
			parts = append(parts, k+": "+v)
		}
	}
	if len(parts) == 0 {
		return "no cache headers"
	}
	return strings.Join(parts, "; ")
}

func condHdrs(h http.Header) []string {
	var out []string
	for _, k := range []string{"If-None-Match", "If-Match", "If-Modified-Since", "If-Unmodified-Since"} {
		for _, v := range h.Values(k) {
			out = append(out, k+": "+v)
		}
	}
	return out
}

// storableWhy / lifetimeWhy classify the header form that matters, so that
// known findings can name a specific input class.
func storableWhy(o *OLog, p *ProxyPlan) string {
	return headerClass(o.RespHdr) + fmt.Sprintf(" status=%d method=%s ignoreCC=%v", o.Status, o.Method, p.IgnoreCC)
}

func lifetimeWhy(o *OLog, p *ProxyPlan) string {
	return headerClass(o.RespHdr) + fmt.Sprintf(" force=%v", p.ForceDef)
}

func headerClass(h http.Header) string {
	var cls []string
	ccs := h.Values("Cache-Control")
	if len(ccs) > 1 {
		cls = append(cls, "multi-line-cc")
	}
	for _, line := range ccs {
		for _, part := range strings.Split(line, ",") {
			part = strings.TrimSpace(part)
			name, _, _ := strings.Cut(part, "=")
			ln := strings.ToLower(name)
			if name != ln {
				cls = append(cls, "mixed-case:"+ln)
			} else if ln != "" {
				cls = append(cls, ln)
			}
			if strings.Contains(part, `"`) {
				cls = append(cls, "quoted")
			}
		}
	}
	if ex := h.Get("Expires"); ex != "" {
		if _, err := time.Parse(http.TimeFormat, ex); err == nil {
			cls = append(cls, "expires-imf")
		} else if _, err := http.ParseTime(ex); err == nil {
			cls = append(cls, "expires-obsolete-date-form")
		} else {
			cls = append(cls, "expires-unparseable")
		}
	}
	if len(cls) == 0 {
		return "no-directives"
	}
	// dedupe, keep order
	seen := map[string]bool{}
	var out []string
	for _, c := range cls {
		if !seen[c] {
			seen[c] = true
			out = append(out, c)
		}
	}
	return strings.Join(out, ",")
}

// ---------------------------------------------------------------------------

func judgeProxy(w *proxyWorld, res *Result) {
	judgeServerLog(w, res)
	judgeBodies(w, res)
	switch w.p.Family {
	case "seq":
		judgeSequential(w, res)
	case "coal", "trouble":
		judgeConcurrent(w, res)
		judgeFreshnessConcurrent(w, res)
	case "range":
		judgeRange(w, res)
	case "relay":
		judgeRelay(w, res)
	case "keys":
		judgeKeys(w, res)
	case "certs":
		judgeCerts(w, res)
	case "raw":
		judgeRaw(w, res)
	}
	for _, ex := range w.exch {
		if ex.Complete {
			res.Probes["exchanges_complete"]++
		}
		switch label(ex) {
		case "HIT":
			res.Probes["label_hit"]++
		case "REVALIDATED":
			res.Probes["label_revalidated"]++
		case "MISS":
			res.Probes["label_miss"]++
		}
	}
	if res.Probes["label_hit"] > 0 || res.Probes["label_revalidated"] > 0 {
		res.Nontrivial = true
	}
}

// ---------------------------------------------------------------------------
// concurrent families: C05 (coalescing), C09 (cache-side trouble)

func judgeConcurrent(w *proxyWorld, res *Result) {
	p := w.p
	pd := planDesc(p)
	allOriginOK := true
	for _, o := range w.olog {
		if o.Status >= 400 || o.Aborted || o.Res < 0 {
			allOriginOK = false
		}
	}
	disconnects := 0
	evicts := 0
	for _, cl := range p.Clients {
		for _, q := range cl {
			if q.Disconnect != 0 {
				disconnects++
			}
			if q.Evict {
				evicts++
			}
		}
	}
	condEvicts := 0 // resources whose stored entry disappears while a conditional request for it is at the origin
	for i := range p.Res {
		if p.Res[i].EvictOnCond {
			evicts++
			condEvicts++
		}
	}
	// C09.a / C05.b / C05.c / C05.d: every surviving client gets the origin's answer
	for _, ex := range w.exch {
		if ex.Req.Evict || ex.Req.Raw != "" || ex.Disconnected || !ex.Sent || ex.Req.Unsendable {
			continue // (a request the proxy cannot pass on is owed an error answer of its own, nothing else)
		}
		res.Evals++
		desc := reqDesc(ex)
		if !allOriginOK {
			continue
		}
		rule, subj := "C09.a", ""
		if p.Family == "coal" {
			rule = "C05.b"
			if disconnects > 0 {
				rule = "C05.c"
			}
			if uncacheable(&p.Res[ex.Req.Res]) {
				rule = "C05.d"
			}
		}
		ctx := troubleContext(w, p, disconnects, evicts)
		switch {
		case ex.TunnelFail != "":
			subj = "tunnel-failed"
			res.violate(rule, subj+" "+ctx, "%s: tunnel could not be established (%s) although the origin answered every request successfully [%s]", desc, ex.TunnelFail, pd)
		case !ex.Complete:
			res.violate(rule, "dropped-connection "+ctx, "%s: no complete response (%s; status %d, %d body bytes) although the origin answered every request successfully [%s]", desc, ex.Err, ex.Status, len(ex.Body), pd)
		case ex.Status >= 500:
			res.violate(rule, fmt.Sprintf("error-status-%d %s", ex.Status, ctx), "%s: client received %d %q although the origin answered every request successfully [%s]", desc, ex.Status, strings.TrimSpace(string(ex.Body[:min(len(ex.Body), 80)])), pd)
		case ex.Status >= 400 && !(ex.Status == 416 && ex.Req.Range != ""):
			res.violate(rule, fmt.Sprintf("error-status-%d %s", ex.Status, ctx), "%s: client received %d although the origin answered every request successfully [%s]", desc, ex.Status, pd)
		case ex.Status < 200 || (ex.Status >= 300 && ex.Status < 400):
			// no client of these families sends a conditional request and no resource redirects:
			// the origin's answer to what the client asked is a 2xx with the body
			res.violate(rule, fmt.Sprintf("not-the-answer-status-%d %s", ex.Status, ctx), "%s: client sent an unconditional request and received %d with %d body bytes; the origin answers that request with a 2xx and the body [%s]", desc, ex.Status, len(ex.Body), pd)
		}
	}
	if p.Family != "coal" {
		return
	}
	// C05.a: one origin fetch per resource
	for ri := range p.Res {
		r := &p.Res[ri]
		if uncacheable(r) || r.Wild {
			continue
		}
		var reqs []*OLog
		for _, o := range w.olog {
			if o.Res == ri {
				reqs = append(reqs, o)
			}
		}
		// requests by phase: a warm-up request (AtMs==0 by client 0 when others start later) counts separately
		phases := map[int64][]*OLog{}
		var phaseStart []int64
		seen := map[int64]bool{}
		for _, cl := range p.Clients {
			for _, q := range cl {
				if q.Res == ri && !q.Evict && !seen[q.AtMs] {
					seen[q.AtMs] = true
					phaseStart = append(phaseStart, q.AtMs)
				}
			}
		}
		sortInt64(phaseStart)
		for _, o := range reqs {
			ph := phaseStart[0]
			for _, s := range phaseStart {
				if !o.T.Before(w.start.Add(time.Duration(s) * time.Millisecond)) {
					ph = s
				}
			}
			phases[ph] = append(phases[ph], o)
		}
		if evicts > condEvicts || !allOriginOK {
			continue
		}
		res.Evals++
		for _, ph := range phaseStart {
			os := phases[ph]
			// One fetch per phase, also when a client hangs up: the shared fetch is detached from the
			// client that happens to lead it, so a disconnect of a leader or of a follower changes
			// nothing for the others - including how often the origin is asked.
			allowed := 1
			if r.EvictOnCond {
				// The stale entry is gone when the 304 arrives: that revalidation renewed nothing and the
				// resource has to be fetched once more - once, for everybody who waits on the shared fetch,
				// not once by each of them.
				for _, o := range os {
					if o.Cond {
						allowed++
					}
				}
				if len(os) > 1 {
					res.Probes["refetch_after_inapplicable_304"]++
				}
			}
			if len(os) > allowed {
				var ds []string
				for _, o := range os {
					c := ""
					if o.Cond {
						c = "(conditional)"
					}
					ds = append(ds, fmt.Sprintf("#%d@step%d%s", o.N, o.Step, c))
				}
				rule := "C05.a"
				if disconnects > 0 {
					rule = "C05.c"
				}
				res.violate(rule, fmt.Sprintf("origin-fetches>%d %s", allowed, w.p.Transport), "resource %d: %d origin requests (%s) in the phase starting at +%dms, expected at most %d [%s]", ri, len(os), strings.Join(ds, " "), ph, allowed, pd)
			}
		}
	}
	// probes
	maxWait := 0
	for _, o := range w.olog {
		n := 0
		for _, ex := range w.exch {
			if ex.Sent && ex.SendSeq < o.Seq && (ex.RecvSeq == 0 || ex.RecvSeq > o.DoneSeq) {
				n++
			}
		}
		if n > maxWait {
			maxWait = n
		}
	}
	if maxWait >= 3 {
		res.Probes["three_or_more_clients_waiting_on_one_fetch"]++
	}
	if maxWait >= 2 {
		res.Probes["two_or_more_clients_waiting_on_one_fetch"]++
		res.Nontrivial = true
	}
}

func uncacheable(r *PRes) bool {
	d := refParse(http.Header{"Cache-Control": r.CC})
	return d.NoStore || d.NoCache || d.Private || d.MaxAge == 0 || (r.Status != 0 && r.Status != 200)
}

// troubleContext names the cache-side condition of the plan (for known-finding matching).
func troubleContext(w *proxyWorld, p *ProxyPlan, disconnects, evicts int) string {
	var c []string
	c = append(c, p.Transport, p.Backend)
	maxBody := 0
	zero := false
	for _, r := range p.Res {
		if r.Size > maxBody {
			maxBody = r.Size
		}
		if r.Size == 0 {
			zero = true
		}
	}
	if p.MaxSize < int64(4*maxBody) {
		c = append(c, "cache-nearly-full")
	}
	if zero {
		c = append(c, "empty-body")
	}
	if disconnects > 0 {
		c = append(c, "client-disconnect")
	}
	if evicts > 0 {
		c = append(c, "entry-evicted")
	}
	if w.res.Faults["disk_short_write"] > 0 {
		c = append(c, "disk-write-fails")
	}
	return strings.Join(c, ",")
}

// dateValidator: the Last-Modified of a response as far as it is a validator. A value that is no
// HTTP date (in any of the three forms) validates nothing and is not sent back.
func dateValidator(h http.Header) string {
	lm := h.Get("Last-Modified")
	if _, err := http.ParseTime(lm); err != nil {
		return ""
	}
	return lm
}

// judgeFreshnessConcurrent: C03's "reused only while fresh" and C06's "a 304 renews the stored
// response" in the worlds where several clients act at once. For the simple case only - the origin
// states one max-age, no Expires, no skewed Date, the policy switches are off and stay as they are -
// the lifetime of every origin response is known exactly: it begins when the response was given and
// is renewed, for the configured default, by every 304 that was given to ITS validator. An answer
// built from the store without an origin contact of its own must fall inside that lifetime.
func judgeFreshnessConcurrent(w *proxyWorld, res *Result) {
	p := w.p
	if p.IgnoreCC || p.ForceDef {
		return
	}
	for _, cl := range p.Clients {
		for _, q := range cl {
			if q.Cfg != "" {
				return // run-time changes of the policy: the sequential model's business
			}
		}
	}
	pd := planDesc(p)
	const slack = 2 * time.Second // one-second resolution of lifetimes and labels
	// A lifetime counts from the instant the proxy stored (or renewed) the response. That instant
	// is not visible from outside; it lies before the instant the client that caused the fetch had
	// the head of its answer (the clock may jump between the origin's answer and the store).
	headAt := map[int]time.Time{}
	for _, e := range w.exch {
		if !e.Sent || e.HdrT.IsZero() {
			continue
		}
		// ... and that client is one whose own answer carries that response: an origin contact that
		// merely falls into the time of an exchange (the detached fetch of a client that has left,
		// still running next to the next request on the same connection) says nothing about when
		// its response was stored (thorough run 10, seed 9: one false alarm in 1.3 million runs).
		a := w.attrib(e)
		for _, c := range w.contacts(e) {
			if a == nil || a.N != c.N {
				continue
			}
			if t, ok := headAt[c.N]; !ok || e.HdrT.After(t) {
				headAt[c.N] = e.HdrT
			}
		}
	}
	for _, ex := range w.exch {
		if !ex.Sent || !ex.Complete || ex.Method != "GET" || ex.Status != 200 || ex.Req.Range != "" || ex.Req.Raw != "" {
			continue
		}
		r := &p.Res[ex.Req.Res]
		if len(r.CC) != 1 || !strings.HasPrefix(r.CC[0], "max-age=") || r.Expires != "" || r.DateSkewS != 0 || r.Redirect > 0 {
			continue
		}
		maxAge, err := strconv.Atoi(strings.TrimPrefix(r.CC[0], "max-age="))
		if err != nil || maxAge <= 0 {
			continue
		}
		if len(w.contacts(ex)) > 0 {
			continue // this exchange went to the origin itself
		}
		o := w.attrib(ex)
		if o == nil || o.Status != 200 {
			continue
		}
		base, known := headAt[o.N]
		if !known {
			continue // whoever caused that fetch went away before its answer: no bound on the store instant
		}
		res.Evals++
		until := base.Add(time.Duration(maxAge) * time.Second)
		etag, lm := o.RespHdr.Get("ETag"), dateValidator(o.RespHdr)
		for _, c := range w.olog {
			if c.Res != o.Res || !c.Cond || c.Status != 304 || c.T.After(ex.SendT) {
				continue
			}
			inm, ims := c.Hdr.Get("If-None-Match"), c.Hdr.Get("If-Modified-Since")
			if (etag != "" && inm == etag) || (etag == "" && lm != "" && ims == lm) {
				rb, ok := headAt[c.N]
				if !ok {
					rb = ex.SendT // renewed at an unknown instant before this request: no claim
				}
				if t := rb.Add(time.Duration(p.DefaultAgeS) * time.Second); t.After(until) {
					until = t
				}
			}
		}
		if ex.SendT.After(until.Add(slack)) {
			res.violate("C03.a", "served-from-the-store-after-its-lifetime (concurrent clients)", "%s at +%v was answered from the store with origin response #%d (version %d, max-age=%d, stored by +%v at the latest) without an origin contact; that response, counting every 304 given to its own validator, was fresh until +%v at the latest [%s]", reqDesc(ex), ex.SendT.Sub(w.start).Round(time.Millisecond), o.N, o.Ver, maxAge, base.Sub(w.start).Round(time.Millisecond), until.Sub(w.start).Round(time.Millisecond), pd)
		}
	}
}
