package zzharness

// Small executable reference models, written from the property statements
// (not from the implementation).

import (
	"net/http"
	"strconv"
	"strings"
	"time"
)

type refDirectives struct {
	HasCC     bool
	NoStore   bool
	NoCache   bool
	Private   bool
	MaxAge    int64 // seconds; -1: no valid max-age
	HasExp    bool
	ExpOK     bool
	Exp       time.Time
	Ambiguous bool // malformed max-age etc.: the statements do not say what must happen
}

// refParse reads all Cache-Control lines (any letter case, any number of
// lines, extra directives) and Expires (any HTTP date form).
func refParse(h http.Header) refDirectives {
	d := refDirectives{MaxAge: -1}
	for _, line := range h.Values("Cache-Control") {
		d.HasCC = true
		for _, part := range splitOutsideQuotes(line) {
			part = strings.TrimSpace(part)
			if part == "" {
				continue
			}
			name, val, hasVal := strings.Cut(part, "=")
			name = strings.ToLower(strings.TrimSpace(name))
			val = strings.Trim(strings.TrimSpace(val), `"`)
			switch name {
			case "no-store":
				d.NoStore = true
			case "no-cache":
				d.NoCache = true
			case "private":
				d.Private = true
			case "max-age":
				if !hasVal {
					d.Ambiguous = true
					continue
				}
				n, err := strconv.ParseInt(val, 10, 64)
				if err != nil && val != "" && strings.Trim(val, "0123456789") == "" {
					// all digits, only too many of them: a positive max-age all the same
					n, err = 1<<31, nil
				}
				if err != nil || n < 0 {
					d.Ambiguous = true
					continue
				}
				if n > 1<<31 {
					n = 1 << 31 // far beyond any run; keeps the arithmetic on lifetimes in range
				}
				if d.MaxAge < 0 {
					d.MaxAge = n
				} else if d.MaxAge != n {
					d.Ambiguous = true // two different max-age values
				}
			}
		}
	}
	if vs := h.Values("Expires"); len(vs) > 0 {
		d.HasExp = true
		if t, err := http.ParseTime(strings.TrimSpace(vs[0])); err == nil {
			d.ExpOK = true
			d.Exp = t
		}
		if len(vs) > 1 {
			d.Ambiguous = true
		}
	}
	return d
}

// splitOutsideQuotes splits a list header value at the commas that are not inside a quoted-string
// (RFC 9110 section 5.6.4: a quoted-string may contain commas, and backslash-escaped quotes).
func splitOutsideQuotes(s string) []string {
	var out []string
	start, inq := 0, false
	for i := 0; i < len(s); i++ {
		switch {
		case inq && s[i] == '\\' && i+1 < len(s):
			i++
		case s[i] == '"':
			inq = !inq
		case s[i] == ',' && !inq:
			out = append(out, s[start:i])
			start = i + 1
		}
	}
	return append(out, s[start:])
}

// refFreshUntil: the instant until which a response received at respT may be
// reused without contacting the origin (C03). known=false: the statement does
// not determine it for this input.
func refFreshUntil(d refDirectives, respT time.Time, forceDefault bool, def time.Duration, ignoreCC bool) (until time.Time, known bool) {
	if forceDefault {
		return respT.Add(def), true
	}
	if d.Ambiguous {
		return time.Time{}, false
	}
	with := lifetimeOf(d, respT, def)
	if !ignoreCC {
		return with, true
	}
	// "ignore origin cache directives": the Cache-Control header may be disregarded altogether
	// (then Expires, else the default, decides) or its max-age may still be used. Expires is not
	// a Cache-Control directive and stays in force either way. The lifetime is only determined
	// when both readings agree.
	noCC := d
	noCC.HasCC, noCC.NoStore, noCC.NoCache, noCC.Private, noCC.MaxAge = false, false, false, false, -1
	without := lifetimeOf(noCC, respT, def)
	if with.Equal(without) {
		return with, true
	}
	return time.Time{}, false
}

func lifetimeOf(d refDirectives, respT time.Time, def time.Duration) time.Time {
	if d.MaxAge >= 0 {
		return respT.Add(time.Duration(d.MaxAge) * time.Second)
	}
	if d.HasExp {
		if !d.ExpOK {
			return respT // unparseable Expires counts as already expired
		}
		return d.Exp
	}
	return respT.Add(def)
}

const (
	storeMustNot = iota
	storeMay
	storeMust
)

// refStorable is C04's three-valued reference.
func refStorable(method string, status int, h http.Header, respT time.Time, ignoreCC bool, isRange bool) int {
	if status != 200 || method != "GET" {
		return storeMustNot
	}
	if isRange {
		return storeMay
	}
	d := refParse(h)
	// the statement is silent about these: a stricter cache would be right to differ
	silent := len(h.Values("Vary")) > 0 || len(h.Values("Set-Cookie")) > 0
	if ignoreCC {
		if silent {
			return storeMay
		}
		return storeMust
	}
	if d.NoStore || d.NoCache || d.Private || d.MaxAge == 0 {
		return storeMustNot
	}
	if d.HasExp && d.MaxAge < 0 {
		if !d.ExpOK || !d.Exp.After(respT) {
			return storeMustNot // already expired (unparseable counts as expired)
		}
	}
	if d.Ambiguous || silent {
		return storeMay
	}
	if d.MaxAge > 0 {
		if d.HasExp && (!d.ExpOK || !d.Exp.After(respT)) {
			return storeMay // positive max-age and a past Expires: max-age wins in RFC 9111, statement lists both
		}
		return storeMust
	}
	if !d.HasCC && !(d.HasExp && !d.Exp.After(respT)) {
		return storeMust
	}
	return storeMay
}

var hopByHop = map[string]bool{
	"Connection": true, "Proxy-Connection": true, "Keep-Alive": true, "Proxy-Authenticate": true,
	"Proxy-Authorization": true, "Te": true, "Trailer": true, "Transfer-Encoding": true, "Upgrade": true,
}
