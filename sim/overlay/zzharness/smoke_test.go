package zzharness

import "testing"

func TestSmoke(t *testing.T) {}
