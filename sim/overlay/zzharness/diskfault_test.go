package zzharness

import (
	"os/signal"
	"sync"
	"syscall"
)

var ignoreXFSZ sync.Once

// setFsizeLimit arms RLIMIT_FSIZE (process-wide) and returns the function that
// lifts it again. With SIGXFSZ ignored, a write that would grow a file beyond
// the limit writes up to the limit and then fails with EFBIG: a short write
// with real kernel semantics. Only used in sequential plans, where the cache
// file is the only file the process writes during the window.
func setFsizeLimit(n uint64) func() {
	ignoreXFSZ.Do(func() { signal.Ignore(syscall.SIGXFSZ) })
	var old syscall.Rlimit
	if err := syscall.Getrlimit(syscall.RLIMIT_FSIZE, &old); err != nil {
		return func() {}
	}
	lim := syscall.Rlimit{Cur: n, Max: old.Max}
	if err := syscall.Setrlimit(syscall.RLIMIT_FSIZE, &lim); err != nil {
		return func() {}
	}
	return func() { syscall.Setrlimit(syscall.RLIMIT_FSIZE, &old) }
}
