package zzharness

// C02: distinct resources never share a cache entry (inputs only).

import (
	"fmt"
	"math/rand/v2"
	"strings"
)

var keyAtoms = []string{"a", "b", "/", "//", "/./", "/../", "|", "%2F", "%7C", "?", "&", "=", ";", "c", "/%2e/", "%2E", "/%2e%2e/", "%2f", "%252F", "%2541", "%25"}

func genTarget(r *rand.Rand, n int) string {
	var b strings.Builder
	b.WriteString("/")
	q := false
	for i := 0; i < n; i++ {
		a := keyAtoms[r.IntN(len(keyAtoms))]
		if a == "?" {
			if q {
				continue
			}
			q = true
		}
		b.WriteString(a)
	}
	return b.String()
}

// mutate returns a target related to t by one small edit, and the relation's name.
func mutateTarget(r *rand.Rand, t string) (string, string) {
	path, query, hasQ := strings.Cut(t, "?")
	switch r.IntN(13) {
	case 11: // an escape escaped once more: "%2F" and "%252F" are different resources
		if i := strings.IndexByte(path, '%'); i >= 0 {
			return joinTarget(path[:i]+"%25"+path[i+1:], query, hasQ), "escaped-percent"
		}
		if i := strings.LastIndexByte(path, '/'); i >= 0 {
			a, b := path[:i]+"%2F"+path[i+1:], path[:i]+"%252F"+path[i+1:]
			if r.IntN(2) == 0 {
				return joinTarget(a, query, hasQ), "encoded-slash"
			}
			return joinTarget(b, query, hasQ), "escaped-percent"
		}
	case 0: // trailing slash toggled
		if strings.HasSuffix(path, "/") && len(path) > 1 {
			path = path[:len(path)-1]
		} else {
			path += "/"
		}
		return joinTarget(path, query, hasQ), "trailing-slash"
	case 1: // dot segment inserted
		i := strings.LastIndexByte(path, '/')
		path = path[:i] + "/." + path[i:]
		return joinTarget(path, query, hasQ), "dot-segment"
	case 2: // detour through a parent
		i := strings.LastIndexByte(path, '/')
		path = path[:i] + "/zz/.." + path[i:]
		return joinTarget(path, query, hasQ), "dotdot-segment"
	case 3: // duplicate slash
		i := strings.LastIndexByte(path, '/')
		path = path[:i] + "/" + path[i:]
		return joinTarget(path, query, hasQ), "duplicate-slash"
	case 4: // separator moved across the path/query boundary
		if hasQ && query != "" {
			return path + query[:1] + "?" + query[1:], "boundary-moved"
		}
		if len(path) > 2 {
			return path[:len(path)-1] + "?" + path[len(path)-1:], "boundary-moved"
		}
	case 5: // '|' on either side of the boundary
		return "/k|m?n", "pipe-1"
	case 6:
		return "/k?m|n", "pipe-2"
	case 7: // encoded slash vs slash
		if strings.Contains(path, "%2F") {
			return joinTarget(strings.Replace(path, "%2F", "/", 1), query, hasQ), "encoded-slash"
		}
		if i := strings.LastIndexByte(path, '/'); i > 0 {
			return joinTarget(path[:i]+"%2F"+path[i+1:], query, hasQ), "encoded-slash"
		}
	case 8: // query changed
		return joinTarget(path, query+"x", true), "query-changed"
	case 9: // query parameter order
		if hasQ && strings.Contains(query, "&") {
			a, b, _ := strings.Cut(query, "&")
			return joinTarget(path, b+"&"+a, true), "query-reordered"
		}
	case 10: // empty query vs none (don't care)
		if !hasQ {
			return t + "?", "empty-query"
		}
	}
	return t, "identical"
}

func joinTarget(path, query string, hasQ bool) string {
	if hasQ {
		return path + "?" + query
	}
	return path
}

func genKeysPlan(r *rand.Rand) *ProxyPlan {
	p := &ProxyPlan{Family: "keys"}
	p.Backend = "memory"
	p.Shards = 4
	p.MaxSize = 1 << 40
	p.IntervalMs = 1000 * 3600 * 1000
	p.Transport = []string{"plain", "plain", "connect"}[r.IntN(3)]
	p.DefaultAgeS = 3600
	p.Pol = seqPolicy()
	rs := PRes{Host: "origin.test", Path: "/", Wild: true, Size: 64, CC: []string{"max-age=3600"}, ETag: "strong"}
	p.Res = []PRes{rs}
	var a, b string
	if r.IntN(25) == 0 {
		// very long targets that agree for a thousand and more bytes and differ only at the end
		// (whatever the key is built from, all of the target has to go into it)
		pre := "/" + strings.Repeat("seg"+itoa(r.IntN(10))+"/", 260+r.IntN(100))
		tails := [][2]string{{"x", "y"}, {"x", "x/"}, {"x?q=1", "x?q=2"}, {"x?q=1", "x"}, {"x", "x%2Fy"}}
		t := tails[r.IntN(len(tails))]
		if r.IntN(2) == 0 {
			// the difference sits in a long query instead
			pre = "/p?" + strings.Repeat("k=v&", 300+r.IntN(100))
			t = [2]string{"z=1", "z=2"}
		}
		a, b = pre+t[0], pre+t[1]
	} else if r.IntN(3) == 0 {
		a, b = "/k|m?n", "/k?m|n"
		if r.IntN(2) == 0 {
			a, b = genTarget(r, 1+r.IntN(4)), genTarget(r, 1+r.IntN(4))
		}
	} else {
		a = genTarget(r, 1+r.IntN(4))
		b, _ = mutateTarget(r, a)
	}
	qa := PReq{Res: 0, Target: a}
	qb := PReq{Res: 0, Target: b}
	switch r.IntN(8) {
	case 0:
		qb.HostHdr = "ORIGIN.test"
	case 1:
		qb.HostHdr = "Origin.Test"
	case 2:
		qb.Method = "HEAD"
	case 3:
		qb.HostHdr = "other.origin.test"
	}
	if qb.HostHdr == "other.origin.test" {
		p.Res = append(p.Res, PRes{Host: "other.origin.test", Path: "/", Wild: true, Size: 64, CC: []string{"max-age=3600"}, ETag: "strong"})
		qb.Res = 1
		qb.HostHdr = ""
	}
	reqs := []PReq{qa, qb}
	if r.IntN(2) == 0 {
		reqs = append(reqs, qa)
	}
	if r.IntN(3) == 0 {
		reqs = append(reqs, qb)
	}
	p.Clients = [][]PReq{reqs}
	return p
}

// refIdentity is the statement's notion of "the same resource".
func refIdentity(method, host, target string) string {
	path, query, hasQ := strings.Cut(target, "?")
	_ = hasQ
	// remove dot-segments and duplicate slashes, keep a trailing slash, keep encodings as sent
	segs := strings.Split(path, "/")
	var out []string
	for _, s := range segs {
		switch s {
		case "", ".":
			continue
		case "..":
			if len(out) > 0 {
				out = out[:len(out)-1]
			}
		default:
			out = append(out, s)
		}
	}
	np := "/" + strings.Join(out, "/")
	last := segs[len(segs)-1]
	if len(out) > 0 && (strings.HasSuffix(path, "/") || last == "." || last == "..") {
		np += "/"
	}
	h := strings.ToLower(host)
	return method + " " + h + " " + np + " ?" + query
}

// The statement is silent on two things: whether "%7C" and "|" name the same resource, and whether
// an encoded dot ("%2e") counts as a dot for dot-segment removal. Each combination of answers is an
// admissible reading; a verdict needs the two requests to be distinct (or the same) under every one.
func readings(method, host, target string) [4]string {
	var out [4]string
	for i := 0; i < 4; i++ {
		t := target
		pth, q, hasQ := strings.Cut(strings.TrimSuffix(t, "?"), "?")
		if i&1 != 0 {
			pth = strings.ReplaceAll(strings.ReplaceAll(pth, "%7C", "|"), "%7c", "|")
			q = strings.ReplaceAll(strings.ReplaceAll(q, "%7C", "|"), "%7c", "|")
		}
		if i&2 != 0 {
			pth = strings.ReplaceAll(strings.ReplaceAll(pth, "%2e", "."), "%2E", ".")
		}
		if hasQ {
			pth += "?" + q
		}
		out[i] = refIdentity(method, host, pth)
	}
	return out
}

// distinctUnderEveryReading / sameUnderEveryReading compare two requests reading by reading.
func distinctUnderEveryReading(a, b [4]string) bool {
	for i := range a {
		if a[i] == b[i] {
			return false
		}
	}
	return true
}

func sameUnderEveryReading(a, b [4]string) bool {
	for i := range a {
		if a[i] != b[i] {
			return false
		}
	}
	return true
}

// silentNorm removes the differences about which the statement is silent.
func silentNorm(t string) string {
	t = strings.TrimSuffix(t, "?")
	t = strings.ReplaceAll(t, "%7C", "|")
	t = strings.ReplaceAll(t, "%7c", "|")
	// an encoded dot is an unreserved character: whether "%2e" counts as a dot-segment is not stated
	pth, q, hasQ := strings.Cut(t, "?")
	pth = strings.ReplaceAll(strings.ReplaceAll(pth, "%2e", "."), "%2E", ".")
	if hasQ {
		return pth + "?" + q
	}
	return pth
}

// dontCare: pairs about which the statement is silent.
func identityDontCare(a, b string) bool {
	norm := func(t string) string {
		t = strings.TrimSuffix(t, "?")
		t = strings.ReplaceAll(t, "%7C", "|")
		t = strings.ReplaceAll(t, "%7c", "|")
		return t
	}
	return norm(a) == norm(b) && a != b
}

func judgeKeys(w *proxyWorld, res *Result) {
	pd := planDesc(w.p)
	type seen struct {
		ex *Exch
		id string
		rd [4]string
	}
	var prev []seen
	for _, ex := range w.exch {
		if !ex.Sent {
			continue
		}
		res.Evals++
		host := w.p.Res[ex.Req.Res].Host
		if ex.Req.HostHdr != "" {
			host = ex.Req.HostHdr
		}
		id := refIdentity(ex.Method, host, ex.Req.Target)
		rd := readings(ex.Method, host, ex.Req.Target)
		desc := fmt.Sprintf("%s %s%s", ex.Method, host, ex.Req.Target)
		if !ex.Complete {
			// an unanswered request is C16's business (e.g. an invalid percent-escape on a tunnel)
			res.Probes["unanswered"]++
			prev = append(prev, seen{ex, id, rd})
			continue
		}
		o := w.attrib(ex)
		cons := w.contacts(ex)
		if o != nil {
			oid := refIdentity(o.Method, o.Host, o.URI)
			if oid != id && distinctUnderEveryReading(readings(o.Method, o.Host, o.URI), rd) {
				// answered with the response to a request naming another resource
				rel := relationOf(o.URI, ex.Req.Target, o.Method != ex.Method, !strings.EqualFold(o.Host, host))
				if pth, _, _ := strings.Cut(ex.Req.Target, "?"); strings.Contains(pth, "|") && strings.Contains(strings.ToUpper(ex.Req.Target+o.URI), "%2F") {
					// net/url drops RawPath when the path holds a character it wants escaped, and
					// re-encodes from the decoded path: "%2F" then becomes "/"
					rel = "encoded-slash next to a raw '|' in the path (net/url re-encodes the path)"
				}
				res.violate("C02.a", "shared-entry: "+rel, "%s was answered with the stored response to %s %s%s (origin response #%d) [%s]", desc, o.Method, o.Host, o.URI, o.N, pd)
			}
		}
		// C02.b: same identity as an earlier cacheable GET => served from that entry
		if ex.Method == "GET" {
			for _, pv := range prev {
				if pv.id == id && sameUnderEveryReading(pv.rd, rd) && pv.ex.Method == "GET" && pv.ex.Complete && pv.ex.Status == 200 {
					phost := w.p.Res[pv.ex.Req.Res].Host
					if pv.ex.Req.HostHdr != "" {
						phost = pv.ex.Req.HostHdr
					}
					if len(cons) > 0 && (pv.ex.Req.Target != ex.Req.Target || phost != host) {
						rel := relationOf(pv.ex.Req.Target, ex.Req.Target, false, phost != host)
						for _, tg := range []string{pv.ex.Req.Target, ex.Req.Target} {
							if pth, _, _ := strings.Cut(tg, "?"); strings.Contains(pth, "|") && strings.Contains(strings.ToUpper(pth), "%2F") {
								// same root cause as the C02.a finding: the path of that request was re-encoded
								// from its decoded form, its "%2F" became a real slash before normalisation
								rel = "encoded-slash next to a raw '|' in the path (net/url re-encodes the path)"
							}
						}
						res.violate("C02.b", "not-shared: "+rel, "%s names the same resource as the earlier %s%s but was fetched from the origin again [%s]", desc, phost, pv.ex.Req.Target, pd)
					}
					if len(cons) == 0 {
						res.Probes["shared_entry_hit"]++
					}
					break
				}
			}
		}
		prev = append(prev, seen{ex, id, rd})
	}
	res.Nontrivial = true
}

func relationOf(a, b string, methodDiffers, hostDiffers bool) string {
	switch {
	case methodDiffers:
		return "method"
	case hostDiffers && a == b:
		return "host"
	}
	pa, qa, _ := strings.Cut(a, "?")
	pb, qb, _ := strings.Cut(b, "?")
	switch {
	case strings.TrimSuffix(pa, "/") == strings.TrimSuffix(pb, "/") && pa != pb && qa == qb:
		return "trailing-slash"
	case strings.ReplaceAll(pa, "%2F", "/") == strings.ReplaceAll(pb, "%2F", "/") && pa != pb:
		return "encoded-slash"
	case strings.ReplaceAll(pa+"|"+qa, "|", "") == strings.ReplaceAll(pb+"|"+qb, "|", "") && strings.Contains(a+b, "|"):
		return "pipe-across-boundary"
	case pa == pb:
		return "query"
	case strings.Contains(pa+pb, "/.") || strings.Contains(pa+pb, "//"):
		return "dot-or-double-slash"
	}
	return "other"
}

func init() {
	register(&Scenario{Name: "keys", Gen: func(r *rand.Rand, tier string) any { return genKeysPlan(r) }, Decode: decodeInto[ProxyPlan], Run: runProxyPlan, Shrink: shrinkProxyPlan})
}
