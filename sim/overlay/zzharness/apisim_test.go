package zzharness

// C20: dashboard API needs a live session obtained with the right password.

import (
	"bytes"
	"crypto/sha256"
	"encoding/base64"
	"encoding/json"
	"fmt"
	"math/rand/v2"
	"net/http"
	"net/http/httptest"
	"os"
	"path/filepath"
	"sort"
	"strings"
	"testing"
	"time"

	"golang.org/x/crypto/argon2"

	"reservoir/config"
	"reservoir/db"
	"reservoir/db/stores"
	"reservoir/metrics"
	"reservoir/webserver/api"
	"reservoir/webserver/auth"
	"reservoir/webserver/middleware"
	"reservoir/zzsim"
)

type ApiOp struct {
	AtMs    int64  `json:"at"`
	Kind    string `json:"k"`                // login | use | logout | sweep
	User    string `json:"user,omitempty"`   // login
	Pass    string `json:"pass,omitempty"`   // login
	Sess    int    `json:"sess,omitempty"`   // which earlier login's cookie (1-based); 0: none
	Cookie  string `json:"cookie,omitempty"` // "" (session Sess) | none | random | empty | garbage
	Route   string `json:"route,omitempty"`  // "GET /api/config" ...
	Origin  string `json:"origin,omitempty"`
	Site    string `json:"site,omitempty"`
}

type ApiPlan struct {
	StoredHash string       `json:"stored_hash"` // "good" | "malformed" | "other-password"
	Ops        []ApiOp      `json:"ops"`
	Pol        zzsim.Policy `json:"pol"`
}

const apiPassword = "correct horse"

func cheapPHC(password string) string {
	sum := sha256.Sum256([]byte("salt" + password))
	salt := sum[:16]
	h := argon2.IDKey([]byte(password), salt, 1, 64, 1, 24)
	return fmt.Sprintf("$argon2id$v=19$m=64,t=1,p=1$%s$%s", base64.RawStdEncoding.EncodeToString(salt), base64.RawStdEncoding.EncodeToString(h))
}

var apiAuthedRoutes = []string{"GET /api/config", "GET /api/auth/me", "GET /api/metrics/cache", "GET /api/metrics/requests", "GET /api/config/restart-required", "GET /api/version"}

var apiOffsets = []int64{0, 1000, 49 * 60000, 50 * 60000, 59*60000 + 59000, 60 * 60000, 60*60000 + 1000, 61 * 60000, 74 * 60000, 76 * 60000, 119 * 60000, 3 * 3600000}

func genApiPlan(r *rand.Rand) *ApiPlan {
	p := &ApiPlan{Pol: zzsim.Policy{Kind: "uniform", MaxSteps: 20000}}
	p.StoredHash = []string{"good", "good", "good", "good", "malformed", "other-password"}[r.IntN(6)]
	at := int64(0)
	nsess := 0
	n := 3 + r.IntN(8)
	if r.IntN(4) == 0 {
		// a request and the logout of its session at the same instant, late in the session's
		// life (where a request also extends the session), then the cookie once more
		at = int64(r.IntN(120)) * 1000
		late := at + []int64{50*60000 + 1000, 55 * 60000, 59*60000 + 59000, 30 * 60000}[r.IntN(4)]
		p.Ops = append(p.Ops, ApiOp{AtMs: at, Kind: "login", User: "admin", Pass: apiPassword},
			ApiOp{AtMs: late, Kind: "race", Sess: 1, Route: apiAuthedRoutes[r.IntN(len(apiAuthedRoutes))]},
			ApiOp{AtMs: late + int64(r.IntN(3))*60000, Kind: "use", Sess: 1, Route: apiAuthedRoutes[r.IntN(len(apiAuthedRoutes))]})
		nsess = 1
		at = late + 3*60000
	}
	for i := 0; i < n; i++ {
		at += apiOffsets[r.IntN(len(apiOffsets))] / int64(1+r.IntN(2))
		if r.IntN(4) == 0 {
			// exactly on a tick of the session collector (every 15 minutes): the request and the
			// collector's pass over the session table are eligible in the same scheduling step
			at = (at/900000 + 1) * 900000
		}
		op := ApiOp{AtMs: at}
		switch x := r.IntN(10); {
		case x < 3 || nsess == 0 && x < 6:
			op.Kind = "login"
			op.User = []string{"admin", "admin", "admin", "nobody", "ADMIN"}[r.IntN(5)]
			// right, wrong, empty, and near misses: the right password with white space around it, a
			// prefix of it, another letter case (none of them is the password whose hash is stored)
			op.Pass = []string{apiPassword, apiPassword, apiPassword, "wrong", "", apiPassword + " ", " " + apiPassword, apiPassword + "\n", "\t" + apiPassword, apiPassword[:len(apiPassword)-1], strings.ToUpper(apiPassword), apiPassword + "\u00a0"}[r.IntN(12)]
			nsess++
		case x < 8:
			op.Kind = "use"
			op.Route = apiAuthedRoutes[r.IntN(len(apiAuthedRoutes))]
			if nsess > 0 && r.IntN(4) != 0 {
				op.Sess = 1 + r.IntN(nsess)
			} else {
				op.Cookie = []string{"none", "random", "empty", "garbage"}[r.IntN(4)]
			}
			switch r.IntN(8) {
			case 0:
				op.Site = "cross-site"
			case 1:
				op.Origin = "http://evil.example"
			case 2:
				op.Origin, op.Site = "http://evil.example", "cross-site"
			case 3:
				op.Site = "same-origin"
			case 4:
				op.Origin, op.Site = "http://dash.test", "same-origin"
			}
		case x < 9:
			op.Kind = "logout"
			if nsess > 0 {
				op.Sess = 1 + r.IntN(nsess)
			} else {
				op.Cookie = "random"
			}
		default:
			op.Kind = "sweep" // every registered route x every method without a live session
			op.Cookie = []string{"none", "random", "garbage"}[r.IntN(3)]
			if nsess > 0 && r.IntN(3) == 0 {
				op.Cookie = ""
				op.Sess = 1 + r.IntN(nsess) // whatever state that session is in by now
			}
		}
		p.Ops = append(p.Ops, op)
	}
	return p
}

type refSession struct {
	id      string
	expires time.Time
	dead    bool // logged out or seen expired
}

func runApiPlan(t *testing.T, planAny any, ctl Ctl) *Result {
	p := planAny.(*ApiPlan)
	res := newResult()
	dir := newRunDir()
	os.Chdir(dir)
	os.MkdirAll(filepath.Join(dir, "var"), 0o755)
	defer os.RemoveAll(dir)
	defer auth.VerifReset()
	var hist []string
	bubble(t, res, func() {
		metrics.Global = metrics.NewMetrics()
		auth.VerifReset()
		s := zzsim.New(ctl.Seed, racePol(p.Pol))
		if ctl.Replay != nil {
			s.SetReplay(ctl.Replay, ctl.Guided)
		}
		s.Attach()
		defer s.Detach()
		s.Exempt()
		start := time.Now()
		cfg, err := config.LoadOrDefault(filepath.Join("var", "config.json"))
		if err != nil {
			panic(err)
		}
		if err := db.MigrateDatabases(); err != nil {
			panic(err)
		}
		stored := cheapPHC(apiPassword)
		switch p.StoredHash {
		case "malformed":
			stored = "$argon2id$v=19$m=64,t=1,p=1$!!!$"
		case "other-password":
			stored = cheapPHC("something else")
		}
		mdb, err := db.OpenMainDatabase()
		if err != nil {
			panic(err)
		}
		if err := mdb.Exec("UPDATE users SET password_hash = ?, password_change_required = 0 WHERE username = 'admin'", stored); err != nil {
			panic(err)
		}
		mdb.Close()
		a := api.New(cfg)
		mux := http.NewServeMux()
		if err := a.RegisterHandlers(mux); err != nil {
			panic(err)
		}
		handler := middleware.Harden(mux)
		routes := a.VerifRoutes()
		registered := map[string]bool{}
		paths := map[string]bool{}
		for _, rt := range routes {
			registered[rt.Method+" "+rt.Path] = true
			paths[rt.Path] = true
		}
		var pathList []string
		for pth := range paths {
			pathList = append(pathList, pth)
		}
		sort.Strings(pathList)
		auth.StartSessionGC()
		s.Unexempt()

		call := func(method, path, cookie, origin, site, body string) *httptest.ResponseRecorder {
			var rd *bytes.Reader
			rd = bytes.NewReader([]byte(body))
			req := httptest.NewRequest(method, "http://dash.test"+path, rd)
			if body != "" {
				req.Header.Set("Content-Type", "application/json")
			}
			if cookie != "\x00" {
				req.Header.Set("Cookie", "reservoir.sid="+cookie)
			}
			if origin != "" {
				req.Header.Set("Origin", origin)
			}
			if site != "" {
				req.Header.Set("Sec-Fetch-Site", site)
			}
			rec := httptest.NewRecorder()
			func() {
				defer func() {
					if r := recover(); r != nil {
						res.violate("C16.b", "api-handler-panic: "+method+" "+path, "%s %s panicked: %v", method, path, r)
						rec.Code = 599
					}
				}()
				handler.ServeHTTP(rec, req)
			}()
			return rec
		}
		state := func() string {
			// everything a request without a live session must leave alone
			var b strings.Builder
			cj, _ := json.Marshal(cfg)
			b.Write(cj)
			us, err := stores.OpenUserStore()
			if err == nil {
				if u, err := us.GetByUsername("admin"); err == nil && u != nil {
					b.WriteString("|" + u.PasswordHash.String())
					fmt.Fprintf(&b, "|%v", u.PasswordChangeRequired)
				} else {
					fmt.Fprintf(&b, "|user-error:%v", err)
				}
				us.Close()
			}
			for _, se := range auth.VerifSessions() {
				if !se.ExpiresAt.After(time.Now()) {
					// an expired session may be collected by the session GC at any moment, also
					// between the two snapshots around a request issued on a GC tick
					continue
				}
				fmt.Fprintf(&b, "|%s@%d", se.ID, se.ExpiresAt.UnixNano())
			}
			return b.String()
		}
		var sessions []*refSession // index = login number - 1 (nil: login failed)
		cookieOf := func(op ApiOp) (string, *refSession) {
			switch op.Cookie {
			case "none":
				return "\x00", nil
			case "random":
				return "Zm9vYmFyYmF6cXV4MTIzNDU2", nil
			case "empty":
				return "", nil
			case "garbage":
				return "../../etc/passwd%00\"", nil
			}
			if op.Sess >= 1 && op.Sess <= len(sessions) && sessions[op.Sess-1] != nil {
				return sessions[op.Sess-1].id, sessions[op.Sess-1]
			}
			return "\x00", nil
		}
		// reference: is the session live at now? 1 yes, 0 no, -1 boundary (either)
		liveness := func(rs *refSession, now time.Time) int {
			if rs == nil || rs.dead {
				return 0
			}
			if now.Before(rs.expires) {
				return 1
			}
			if now.Equal(rs.expires) {
				return -1
			}
			return 0
		}
		touch := func(rs *refSession, now time.Time) {
			if rs.expires.Sub(now) <= 10*time.Minute {
				rs.expires = now.Add(time.Hour)
			}
		}
		crossSite := func(op ApiOp) int { // 1 must refuse, 0 must let through, -1 may
			switch {
			case op.Site == "cross-site":
				return 1
			case op.Site == "" && op.Origin != "" && !strings.Contains(op.Origin, "dash.test"):
				return 1
			case op.Site == "" && op.Origin == "":
				return 0
			case op.Site == "same-origin":
				return 0
			}
			return -1
		}
		raceN := 0
		s.Spawn("actor:api", func() {
			for _, op := range p.Ops {
				s.WaitUntil("harness:api-at", start.Add(time.Duration(op.AtMs)*time.Millisecond))
				now := time.Now()
				rel := now.Sub(start).Round(time.Second)
				res.Evals++
				switch op.Kind {
				case "login":
					hist = append(hist, fmt.Sprintf("+%v login %s/%q", rel, op.User, op.Pass))
					body, _ := json.Marshal(map[string]string{"username": op.User, "password": op.Pass})
					rec := call("POST", "/api/auth/login", "\x00", "", "", string(body))
					should := p.StoredHash == "good" && strings.EqualFold(op.User, "admin") && op.Pass == apiPassword
					var sid string
					for _, c := range rec.Result().Cookies() {
						if c.Name == "reservoir.sid" {
							sid = c.Value
						}
					}
					got := rec.Code == 200 && sid != ""
					switch {
					case got && !should:
						res.violate("C20.c", "login-succeeded-without-matching-password (stored hash "+p.StoredHash+")", "login %s/%q returned a session although the stored hash (%s) does not verify that password [%s]", op.User, op.Pass, p.StoredHash, strings.Join(hist, "; "))
					case !got && should:
						res.violate("C20.c", "correct-password-refused", "login %s/%q answered %d without a session [%s]", op.User, op.Pass, rec.Code, strings.Join(hist, "; "))
					}
					if got {
						sessions = append(sessions, &refSession{id: sid, expires: now.Add(time.Hour)})
						res.Probes["login_ok"]++
					} else {
						sessions = append(sessions, nil)
						res.Probes["login_refused"]++
					}
				case "use", "logout":
					route := op.Route
					if op.Kind == "logout" {
						route = "POST /api/auth/logout"
					}
					method, path, _ := strings.Cut(route, " ")
					cookie, rs := cookieOf(op)
					lv := liveness(rs, now)
					cs := crossSite(op)
					hist = append(hist, fmt.Sprintf("+%v %s cookie=%s origin=%q site=%q", rel, route, cookieDesc(op), op.Origin, op.Site))
					before := state()
					rec := call(method, path, cookie, op.Origin, op.Site, "")
					after := state()
					h := strings.Join(hist, "; ")
					if cs == 1 {
						if rec.Code != 403 {
							res.violate("C20.d", fmt.Sprintf("cross-site-request-let-through origin=%q site=%q", originClass(op.Origin), op.Site), "%s with Origin %q, Sec-Fetch-Site %q answered %d, expected 403 [%s]", route, op.Origin, op.Site, rec.Code, h)
						}
						if after != before {
							res.violate("C20.d", "cross-site-request-had-effect", "%s with Origin %q, Sec-Fetch-Site %q changed state [%s]", route, op.Origin, op.Site, h)
							if rs != nil && op.Kind == "logout" {
								rs.dead = true
							}
							if rs != nil && lv == 1 {
								touch(rs, now)
							}
						}
						if rec.Code != 403 && rs != nil && lv == 1 {
							touch(rs, now)
							if op.Kind == "logout" && rec.Code < 300 {
								rs.dead = true
							}
						}
						continue
					}
					if cs == 0 && rec.Code == 403 {
						res.violate("C20.d", "same-origin-request-refused", "%s with Origin %q, Sec-Fetch-Site %q answered 403 [%s]", route, op.Origin, op.Site, h)
						continue
					}
					if rec.Code == 403 {
						continue // 'may' zone of C20.d
					}
					public := route == "GET /api/version" && !routeRequiresAuth(routes, route)
					switch lv {
					case 1:
						if rec.Code == 401 {
							res.violate("C20.a", "live-session-refused", "%s with the cookie of a live session (expires +%v) answered 401 [%s]", route, rs.expires.Sub(start).Round(time.Second), h)
						} else {
							touch(rs, now)
							res.Probes["authenticated_use"]++
							if op.Kind == "logout" {
								rs.dead = true
								res.Probes["logout"]++
							}
						}
					case 0:
						if public {
							continue
						}
						why := "no-session"
						if rs != nil {
							why = "expired-session"
							if rs.dead {
								why = "logged-out-or-expired-session"
							}
							res.Probes["use_after_expiry_or_logout"]++
						}
						if rec.Code != 401 {
							rule := "C20.a"
							if why != "no-session" {
								rule = "C20.b"
							}
							res.violate(rule, why+"-accepted", "%s answered %d with %s (cookie %s) [%s]", route, rec.Code, why, cookieDesc(op), h)
							if rs != nil && !rs.dead {
								// follow the implementation so that later steps are judged on their own
								rs.expires = now.Add(time.Hour)
								if op.Kind == "logout" && rec.Code < 300 {
									rs.dead = true
								}
							}
						} else if rs != nil {
							rs.dead = true // seen expired: never comes back
						}
						if after != before && rec.Code == 401 {
							// the only state a refused request may touch is removing the dead session
							if !onlySessionRemoved(before, after) {
								res.violate("C20.a", "refused-request-had-effect", "%s was refused (401) but changed state [%s]", route, h)
							}
						}
					}
				case "race":
					cookie, rs := cookieOf(ApiOp{Sess: op.Sess})
					if rs == nil || liveness(rs, now) != 1 {
						continue
					}
					hist = append(hist, fmt.Sprintf("+%v %s and POST /api/auth/logout at once, cookie=session#%d", rel, op.Route, op.Sess))
					method, path, _ := strings.Cut(op.Route, " ")
					raceN++
					ta, tb := fmt.Sprintf("actor:race-use-%d", raceN), fmt.Sprintf("actor:race-logout-%d", raceN)
					var outCode int
					s.Spawn(ta, func() { call(method, path, cookie, "", "", "") })
					s.Spawn(tb, func() { outCode = call("POST", "/api/auth/logout", cookie, "", "", "").Code })
					for !(s.TaskDone(ta) && s.TaskDone(tb)) {
						s.WaitUntil("harness:api-race", time.Now().Add(time.Millisecond))
					}
					res.Probes["use_concurrent_with_logout"]++
					if outCode >= 300 {
						res.violate("C20.a", "logout-of-live-session-refused", "POST /api/auth/logout with the cookie of a live session answered %d while another request used the session [%s]", outCode, strings.Join(hist, "; "))
					}
					rs.dead = true
					// the logout has been answered: the session is dead, whatever the other request did
					if rec := call("GET", "/api/auth/me", cookie, "", "", ""); rec.Code != 401 {
						res.violate("C20.b", "logged-out-session-accepted (revived by a concurrent request)", "GET /api/auth/me answered %d with the cookie of a session whose logout had been answered [%s]", rec.Code, strings.Join(hist, "; "))
					}
				case "sweep":
					cookie, rs := cookieOf(op)
					lv := liveness(rs, now)
					if lv != 0 {
						if rs != nil && lv == 1 {
							// do not sweep with a live session: handlers like the log stream never return
						}
						continue
					}
					hist = append(hist, fmt.Sprintf("+%v sweep cookie=%s", rel, cookieDesc(op)))
					h := strings.Join(hist, "; ")
					before := state()
					for _, pth := range pathList {
						for _, m := range []string{"GET", "HEAD", "POST", "PUT", "PATCH", "DELETE", "OPTIONS"} {
							if m+" "+pth == "POST /api/auth/login" {
								continue
							}
							body := ""
							if m == "PATCH" || m == "POST" || m == "PUT" {
								body = `{"cache":{"max_cache_size":"4096B"},"current_password":"` + apiPassword + `","new_password":"hacked"}`
							}
							rec := call(m, pth, cookie, "", "", body)
							res.Evals++
							isReg := registered[m+" "+pth] || (m == "HEAD" && registered["GET "+pth])
							if isReg && routeRequiresAuth(routes, m+" "+pth) && rec.Code != 401 {
								res.violate("C20.a", "route-open-without-session: "+m+" "+pth, "%s %s answered %d without a live session (cookie %s) [%s]", m, pth, rec.Code, cookieDesc(op), h)
							}
						}
					}
					if after := state(); after != before && !onlySessionRemoved(before, after) {
						res.violate("C20.a", "unauthenticated-request-had-effect", "a sweep over all routes without a live session changed configuration, password or sessions [%s]", h)
					}
					if rs != nil {
						rs.dead = true
					}
					res.Probes["route_sweeps"]++
				}
			}
		})
		end := s.Run(func() bool { return s.TaskDone("actor:api") })
		finishSched(res, s, end)
		for _, pm := range s.Panics {
			res.violate("C16.b", "task panic", "%s", pm)
		}
		// teardown: the session GC loops for ever on a ticker; end it at its post-tick yield
		s.DrainKillOnPark()
		time.Sleep(16 * time.Minute)
	})
	res.Nontrivial = true
	return res
}

func routeRequiresAuth(routes []api.VerifRoute, route string) bool {
	m, pth, _ := strings.Cut(route, " ")
	if m == "HEAD" {
		m = "GET"
	}
	for _, r := range routes {
		if r.Method == m && r.Path == pth {
			return r.RequiresAuth
		}
	}
	return true
}

func onlySessionRemoved(before, after string) bool {
	bp, ap := strings.Split(before, "|"), strings.Split(after, "|")
	if len(ap) > len(bp) {
		return false
	}
	set := map[string]int{}
	for _, x := range bp {
		set[x]++
	}
	for _, x := range ap {
		if set[x] == 0 {
			return false
		}
		set[x]--
	}
	// what disappeared must be session entries ("id@expiry")
	for x, n := range set {
		if n > 0 && !strings.Contains(x, "@") {
			return false
		}
	}
	return true
}

func cookieDesc(op ApiOp) string {
	if op.Cookie != "" {
		return op.Cookie
	}
	return fmt.Sprintf("session#%d", op.Sess)
}

func originClass(o string) string {
	if o == "" {
		return ""
	}
	if strings.Contains(o, "dash.test") {
		return "same-host"
	}
	return "other-host"
}

func shrinkApiPlan(planAny any) []any {
	p := planAny.(*ApiPlan)
	var out []any
	for i := range p.Ops {
		if len(p.Ops) > 1 {
			q := &ApiPlan{StoredHash: p.StoredHash, Pol: p.Pol, Ops: append(append([]ApiOp{}, p.Ops[:i]...), p.Ops[i+1:]...)}
			// session numbers refer to login order: renumber
			if p.Ops[i].Kind == "login" {
				nth := 0
				for _, o := range p.Ops[:i+1] {
					if o.Kind == "login" {
						nth++
					}
				}
				ok := true
				for j := range q.Ops {
					if q.Ops[j].Sess == nth {
						ok = false
					}
					if q.Ops[j].Sess > nth {
						q.Ops[j].Sess--
					}
				}
				if !ok {
					continue
				}
			}
			out = append(out, q)
		}
	}
	return out
}

func init() {
	register(&Scenario{Name: "api", Gen: func(r *rand.Rand, tier string) any { return genApiPlan(r) }, Decode: decodeInto[ApiPlan], Run: runApiPlan, Shrink: shrinkApiPlan})
}
