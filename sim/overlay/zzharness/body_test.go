package zzharness

import "bytes"

// body returns the n-byte body of version v of resource r. Every byte depends
// on (r, v, i), so any slice is attributable to one version and offset.
func body(r, v, n int) []byte {
	b := make([]byte, n)
	fillBody(b, r, v, 0)
	return b
}

func fillBody(b []byte, r, v, off int) {
	x := uint32(r)*2654435761 ^ uint32(v)*40503*2246822519
	for i := range b {
		j := uint32(off + i)
		h := x ^ j*2246822519
		h ^= h >> 15
		h *= 2654435761
		h ^= h >> 13
		b[i] = byte(33 + h%90)
	}
}

func bodyEquals(got []byte, r, v int) bool {
	return bytes.Equal(got, body(r, v, len(got)))
}

func sliceEquals(got []byte, r, v, off int) bool {
	exp := make([]byte, len(got))
	fillBody(exp, r, v, off)
	return bytes.Equal(got, exp)
}

// firstDiff returns the first index where a and b differ, or -1.
func firstDiff(a, b []byte) int {
	n := min(len(a), len(b))
	for i := 0; i < n; i++ {
		if a[i] != b[i] {
			return i
		}
	}
	if len(a) != len(b) {
		return n
	}
	return -1
}
