package zzharness

// proxyworld: the full stack in one bubble — real proxy.Proxy behind a real
// net/http.Server, real http.Transport towards a scripted origin, in-memory
// network, raw-wire clients (plain proxying and CONNECT+TLS tunnels).

import (
	"bufio"
	"bytes"
	"compress/gzip"
	"context"
	"crypto/ecdsa"
	"crypto/elliptic"
	"crypto/rand"
	"crypto/tls"
	"crypto/x509"
	"crypto/x509/pkix"
	"encoding/json"
	"encoding/pem"
	"errors"
	"fmt"
	"io"
	"log"
	"log/slog"
	"math/big"
	"net"
	"net/http"
	"os"
	"path/filepath"
	"sort"
	"strconv"
	"strings"
	"sync"
	"sync/atomic"
	"syscall"
	"testing"
	"testing/synctest"
	"time"

	"reservoir/config"
	"reservoir/metrics"
	"reservoir/proxy"
	"reservoir/proxy/certs"
	"reservoir/utils/bytesize"
	"reservoir/utils/duration"
	"reservoir/zzsim"
)

type PRes struct {
	Host           string      `json:"host"`
	Path           string      `json:"path"`
	Size           int         `json:"size"`
	CC             []string    `json:"cc,omitempty"`      // Cache-Control header lines
	Expires        string      `json:"expires,omitempty"` // literal value, or "+<sec>" / "-<sec>" relative to the response instant
	ETag           string      `json:"etag,omitempty"`    // "strong" | "weak" | ""
	LastMod        bool        `json:"lastmod,omitempty"`
	Status         int         `json:"status,omitempty"`
	RangeMode      string      `json:"range,omitempty"`            // "ignore" (default) | "honor" | "416"
	SizeStep       int         `json:"size_step,omitempty"`        // every new version of the representation is this much longer
	Hdr416         string      `json:"hdr416,omitempty"`           // cache headers of a 416 answer: "" (the resource's own) | "none" | "no-store" | "max-age=3600"
	CondMode       string      `json:"cond,omitempty"`             // "304" (default: proper revalidation) | "200" | "404" | "500"
	AbortAfterHead bool        `json:"abort_after_head,omitempty"` // the origin sends the complete head and drops the connection before the first body byte (AbortN times)
	CondDelayMs    int64       `json:"cond_delay,omitempty"`       // a 304 is given only after this many milliseconds
	LastModForm    string      `json:"lastmod_form,omitempty"`     // "" IMF-fixdate | rfc850 | asctime (obsolete forms a recipient must accept) | junk
	Gzip           bool        `json:"gzip,omitempty"`             // the origin compresses the representation (Content-Encoding: gzip) for requests that accept gzip
	EvictOnCond    bool        `json:"evict_on_cond,omitempty"`    // the stored entries are deleted while a conditional request for this resource is at the origin
	BumpAtMs       []int64     `json:"bump_at,omitempty"`
	BumpEvery      int         `json:"bump_every,omitempty"`
	Extra          [][2]string `json:"extra,omitempty"`
	Chunk          int         `json:"chunk,omitempty"`
	AbortAt        int         `json:"abort_at,omitempty"`  // >0: connection dropped after this many body bytes (first AbortN responses)
	AbortN         int         `json:"abort_n,omitempty"`   // how many responses are aborted (default 1 when AbortAt>0)
	NoLength       bool        `json:"no_length,omitempty"` // chunked transfer, no Content-Length
	Redirect       int         `json:"redirect,omitempty"`  // answer 302 to resource index Redirect-1
	Wild           bool        `json:"wild,omitempty"`      // answers any path of this host; body identity = hash of the received target
	NoDate         bool        `json:"no_date,omitempty"`
	DateSkewS      int         `json:"date_skew_s,omitempty"`   // the origin's Date header lies this many seconds in the past (negative: future): an aged response, a lagging clock
	NoCloseEcho    bool        `json:"no_close_echo,omitempty"` // raw responses: do not echo "close" although asked (the connection is closed anyway)
}

type PReq struct {
	Res           int         `json:"res"`
	Method        string      `json:"method,omitempty"`
	Target        string      `json:"target,omitempty"` // raw path+query override (wild resources)
	HostHdr       string      `json:"host_hdr,omitempty"`
	Range         string      `json:"range,omitempty"`
	IfRange       string      `json:"if_range,omitempty"` // literal; "@etag" / "@lastmod" are replaced by the validators of the last response this client saw
	Hdr           [][2]string `json:"hdr,omitempty"`
	AtMs          int64       `json:"at,omitempty"`
	Expect100     bool        `json:"expect_100,omitempty"`  // with content: "Expect: 100-continue", the content follows a second after the head
	Unsendable    bool        `json:"unsendable,omitempty"`  // the request carries a header line the server-side parser lets through and the upstream transport refuses to send: its own answer is an error
	HelloDelayMs  int64       `json:"hello_delay,omitempty"` // tunnel: time between the proxy's 200 and the client's ClientHello
	ReadChunk     int         `json:"read_chunk,omitempty"`
	Disconnect    int         `json:"disconnect,omitempty"` // 0 none; -1 right after sending; k>0 after k body bytes
	Body          int         `json:"body,omitempty"`       // request body length
	ChunkedReq    bool        `json:"chunked_req,omitempty"`
	SameConn      bool        `json:"same_conn,omitempty"` // reuse the previous connection/tunnel of this client
	BodyIsRequest bool        `json:",omitempty"`          // the content is itself a well-formed GET for resource 0
	PipeNext      bool        `json:"pipe_next,omitempty"` // sent in one write together with the following request (same connection): HTTP/1.1 pipelining
	Truncate      int         `json:"truncate,omitempty"`  // pseudo request: every cache file loses its last n bytes (a damaged disk)
	Evict         bool        `json:"evict,omitempty"`     // pseudo request: delete every stored entry (an eviction placed by the scheduler)
	Raw           string      `json:"raw,omitempty"`       // literal request bytes (C16)
	Cfg           string      `json:"cfg,omitempty"`       // pseudo request: apply this update document to the running configuration
}

type ProxyPlan struct {
	Family      string       `json:"family"`
	Backend     string       `json:"backend"`
	Shards      int          `json:"shards"`
	MaxSize     int64        `json:"max"`
	MemBudget0  bool         `json:"mem_budget_0,omitempty"` // cache.memory.memory_budget_percent = 0: the memory cache may hold nothing
	IntervalMs  int64        `json:"interval_ms"`
	Transport   string       `json:"transport"` // "plain" | "connect"
	IgnoreCC    bool         `json:"ignore_cc"`
	ForceDef    bool         `json:"force_default"`
	DefaultAgeS int64        `json:"default_age_s"`
	RetryRange  bool         `json:"retry_invalid_range"`
	Retry416    bool         `json:"retry_416"`
	NetBuf      int          `json:"netbuf,omitempty"`
	Res         []PRes       `json:"res"`
	Clients     [][]PReq     `json:"clients"`
	Pol         zzsim.Policy `json:"pol"`
	KeepAlive   bool         `json:"upstream_keepalive,omitempty"`
	DiskLimit   int          `json:"disk_limit,omitempty"` // file backend: no file may grow beyond this many bytes (RLIMIT_FSIZE) during the run
}

// OLog is one request as the origin saw it, and what it answered.
type OLog struct {
	N        int
	Seq      int64
	Step     int
	T        time.Time
	Method   string
	Host     string
	URI      string
	Hdr      http.Header
	BodyLen  int
	BodyHash uint64
	Res      int
	Ver      int
	Status   int
	RespHdr  http.Header
	RespBody []byte
	Aborted  bool
	Cond     bool
	Marker   bool
	DoneSeq  int64
	Finished bool
}

// Exch is one request/response exchange as a client saw it.
// lingerForUnsolicited: the client has its complete answer and has announced "Connection: close".
// It waits a moment and looks whether anything else arrives on the connection: a second response
// (e.g. to request content that the proxy took for a request of its own) is never right.
func (w *proxyWorld) lingerForUnsolicited(cc *clientConn) string {
	w.sim.WaitUntil("harness:client-linger", time.Now().Add(5*time.Millisecond))
	var rd io.Reader = cc.br
	dl := time.Now().Add(time.Millisecond)
	if cc.tls != nil {
		cc.tls.SetReadDeadline(dl)
	} else {
		cc.raw.SetReadDeadline(dl)
	}
	buf := make([]byte, 64)
	n, _ := rd.Read(buf)
	if n > 0 {
		return string(buf[:n])
	}
	return ""
}

// awaitInterim: after the head of a request that expects "100 Continue" has gone out, look at what
// has arrived within the second the client waited: an interim response (its status is returned and
// it is consumed), nothing (0), or already a final response (-1, left unread).
func (w *proxyWorld) awaitInterim(cc *clientConn, method string) int {
	dl := time.Now().Add(time.Millisecond)
	setDL := func(t time.Time) {
		if cc.tls != nil {
			cc.tls.SetReadDeadline(t)
		} else {
			cc.raw.SetReadDeadline(t)
		}
	}
	setDL(dl)
	defer setDL(time.Time{})
	head, err := cc.br.Peek(12)
	if err != nil || len(head) < 12 {
		return 0
	}
	if !bytes.HasPrefix(head, []byte("HTTP/1.1 1")) {
		return -1
	}
	resp, err := http.ReadResponse(cc.br, &http.Request{Method: method})
	if err != nil {
		return 0
	}
	return resp.StatusCode
}

type Exch struct {
	LateInterim   bool
	Interim       int    // Expect: 100-continue: status of the interim response that arrived before the content was sent (0 none, -1 a final response came first)
	Unsolicited   string // bytes that arrived after the complete response although the client had said "Connection: close"
	Client, Idx   int
	Req           PReq
	Method        string
	SendSeq       int64
	SendStep      int
	SendT         time.Time
	RecvSeq       int64
	RecvStep      int
	RecvT         time.Time
	HdrT          time.Time
	Sent          bool
	Status        int
	Hdr           http.Header
	Body          []byte
	Complete      bool // response completely framed and read
	Err           string
	Disconnected  bool
	ConnReused    bool
	TunnelFail    string
	RawHead       string
	Leaf          *x509.Certificate
	TunnelOpenSeq int64
	TunnelUpSeq   int64
	TunnelUpT     time.Time
	ConnHost      string
	TE            []string // Transfer-Encoding as declared on the wire
	CL            int64    // declared Content-Length (-1: none)
	CfgErr        string
}

type proxyWorld struct {
	inflight atomic.Int32 // client exchanges on their way (see clientTask)
	p           *ProxyPlan
	sim         *zzsim.Sched
	res         *Result
	dir         string
	cfg         *config.Config
	px          *proxy.Proxy
	pxLn        *simListener
	orLn        *simListener
	mu          sync.Mutex
	seq         int64
	olog        []*OLog
	exch        []*Exch
	start       time.Time
	reqCnt      map[int]int
	aborted     map[int]int
	cond503     map[int]bool
	dialN       int
	errLog      []string
	netNotes    []string
	srvLog      []string
	caPool      *x509.CertPool
	ca          certs.CertAuthority
	caCert      *x509.Certificate
	tunnelCerts []*x509.Certificate
	tunnelHosts []string
	tunnelTimes []time.Time
}

func (w *proxyWorld) nextSeq() int64 {
	w.mu.Lock()
	defer w.mu.Unlock()
	w.seq++
	return w.seq
}

// errSlog keeps reservoir's Error-level log records of one world (the rest is discarded): they
// explain an aborted exchange in a violation message.
type errSlog struct{ w *proxyWorld }

func (h errSlog) Enabled(_ context.Context, l slog.Level) bool { return l >= slog.LevelError }
func (h errSlog) WithAttrs([]slog.Attr) slog.Handler           { return h }
func (h errSlog) WithGroup(string) slog.Handler                { return h }
func (h errSlog) Handle(_ context.Context, r slog.Record) error {
	var b strings.Builder
	b.WriteString(r.Message)
	r.Attrs(func(a slog.Attr) bool {
		if a.Key == "error" || a.Key == "url" {
			fmt.Fprintf(&b, " %s=%v", a.Key, a.Value)
		}
		return true
	})
	h.w.mu.Lock()
	if len(h.w.errLog) < 20 {
		h.w.errLog = append(h.w.errLog, b.String())
	}
	h.w.mu.Unlock()
	return nil
}

type logWriter struct{ w *proxyWorld }

func (l logWriter) Write(p []byte) (int, error) {
	l.w.mu.Lock()
	if len(l.w.srvLog) < 50 {
		l.w.srvLog = append(l.w.srvLog, strings.TrimSpace(string(p)))
	}
	l.w.mu.Unlock()
	return len(p), nil
}

// ---------------------------------------------------------------------------
// origin

func (w *proxyWorld) version(ri int, now time.Time, cnt int) int {
	r := &w.p.Res[ri]
	v := 1
	for _, at := range r.BumpAtMs {
		if !now.Before(w.start.Add(time.Duration(at) * time.Millisecond)) {
			v++
		}
	}
	if r.BumpEvery > 0 {
		v += cnt / r.BumpEvery * 100
	}
	return v
}

func (w *proxyWorld) versionBirth(ri, v int) time.Time {
	r := &w.p.Res[ri]
	vv := v % 100
	t := w.start.Add(-24 * time.Hour)
	if vv >= 2 && vv-2 < len(r.BumpAtMs) {
		t = w.start.Add(time.Duration(r.BumpAtMs[vv-2]) * time.Millisecond).Truncate(time.Second)
	}
	return t.Add(time.Duration(v/100) * time.Second)
}

func etagOf(r *PRes, ri, v int) string {
	switch r.ETag {
	case "strong":
		return fmt.Sprintf(`"r%d-v%d"`, ri, v)
	case "weak":
		return fmt.Sprintf(`W/"r%d-v%d"`, ri, v)
	}
	return ""
}

func targetRes(method, host, uri string) int {
	return int(hashBytes([]byte(method+" "+strings.ToLower(host)+" "+uri))%900000) + 1000
}

func (w *proxyWorld) findRes(host, path string) int {
	h := strings.ToLower(host)
	if i := strings.LastIndexByte(h, ':'); i >= 0 && !strings.Contains(h[i:], "]") {
		h = h[:i]
	}
	for i := range w.p.Res {
		r := &w.p.Res[i]
		if strings.ToLower(r.Host) != h && r.Host != "*" {
			continue
		}
		if r.Wild || r.Path == path {
			return i
		}
	}
	return -1
}

func (w *proxyWorld) originHandler(rw http.ResponseWriter, req *http.Request) {
	name := w.sim.UniqueName("origin:" + req.RemoteAddr)
	leave := w.sim.Adopt(name, false)
	defer leave()

	reqBody, _ := io.ReadAll(req.Body)
	if len(reqBody) > 0 {
		// The last body bytes woke this task in the middle of a step. Answer in a later step, when
		// every goroutine that is not a task has settled: the proxy's transport still has to finish
		// its request write (it probes the inbound body once more afterwards), and if the proxy's
		// handler starts answering its client before that, net/http's server closes the inbound
		// body under the transport, which then drops the upstream connection mid-response. On a real
		// network that takes a goroutine stalled for longer than a round trip; here it took only CPU
		// load, and no replay reproduced it.
		w.sim.Yield("harness:origin-got-body")
	}
	now := time.Now()
	e := &OLog{Seq: w.nextSeq(), Step: w.sim.Steps, T: now, Method: req.Method, Host: req.Host, URI: req.RequestURI, Hdr: req.Header.Clone(), BodyLen: len(reqBody), BodyHash: hashBytes(reqBody)}
	for _, k := range []string{"If-None-Match", "If-Match", "If-Modified-Since", "If-Unmodified-Since"} {
		for _, v := range req.Header.Values(k) {
			e.Cond = true
			if strings.Contains(v, "client-marker") || strings.Contains(v, "01 Jan 1999") {
				e.Marker = true
			} else if t, err := http.ParseTime(v); err == nil && (t.Equal(time.Date(1999, 1, 1, 0, 0, 0, 0, time.UTC)) || t.Equal(time.Date(2038, 1, 1, 0, 0, 0, 0, time.UTC))) {
				e.Marker = true // the client's date (past or future) in one of the obsolete HTTP date forms
			}
		}
	}
	ri := w.findRes(req.Host, req.URL.Path)
	w.mu.Lock()
	e.N = len(w.olog)
	w.olog = append(w.olog, e)
	cnt := 0
	if ri >= 0 {
		cnt = w.reqCnt[ri]
		w.reqCnt[ri]++
	}
	w.mu.Unlock()
	if ri >= 0 {
		for _, kv := range w.p.Res[ri].Extra {
			if kv[0] == "X-Sim-Raw-NoRange" && req.Header.Get("Range") != "" {
				// this origin refuses ranges properly (below) and is hostile only to requests without one
				// (the proxy's retry after the 416)
				continue
			}
			if kv[0] == "X-Sim-Raw-Range" && req.Header.Get("Range") == "" {
				// the mirror image: a well-formed, storable answer to requests without Range, hostile bytes
				// for Range requests (an unasked-for 304, a 206 that fits nothing) once something is stored
				continue
			}
			if kv[0] == "X-Sim-Raw" || kv[0] == "X-Sim-Raw-NoRange" || kv[0] == "X-Sim-Raw-Range" {
				// hostile origin: literal bytes instead of a well-formed response
				n, _ := strconv.Atoi(kv[1])
				e.Res, e.Status = ri, -1
				e.RespBody = []byte(hostileResponses[n%len(hostileResponses)])
				w.res.fault("hostile_origin_response")
				if hj, ok := rw.(http.Hijacker); ok {
					if c, _, err := hj.Hijack(); err == nil {
						c.Write(e.RespBody)
						if !hostileKeepsOpen[n%len(hostileResponses)] {
							c.Close()
						}
						// (a connection left open is closed with the origin's listener at the end of the run)
					}
				}
				e.Finished = true
				e.DoneSeq = w.nextSeq()
				return
			}
		}
	}
	h := rw.Header()
	h.Set("X-Sim-Resp", strconv.Itoa(e.N))
	if ri < 0 {
		e.Res, e.Status = -1, 404
		h.Set("Content-Type", "text/plain")
		e.RespHdr = h.Clone()
		e.RespBody = []byte("no such resource\n")
		rw.WriteHeader(404)
		rw.Write(e.RespBody)
		e.Finished = true
		e.DoneSeq = w.nextSeq()
		return
	}
	r := &w.p.Res[ri]
	rid := ri
	if r.Wild {
		rid = targetRes(req.Method, req.Host, req.RequestURI)
		h.Set("X-Sim-Target", req.Method+" "+req.Host+" "+req.RequestURI)
	}
	v := w.version(ri, now, cnt) // version is computed from the count before this request
	e.Res, e.Ver = rid, v
	if r.NoDate {
		h["Date"] = nil
	} else if r.DateSkewS != 0 {
		h.Set("Date", now.Add(-time.Duration(r.DateSkewS)*time.Second).UTC().Format(http.TimeFormat))
	}
	for _, cc := range r.CC {
		h.Add("Cache-Control", cc)
	}
	if r.Expires != "" {
		ex := r.Expires
		if (ex[0] == '+' || ex[0] == '-') && len(ex) > 1 && ex != "-1" {
			num, form, _ := strings.Cut(ex, "@")
			sec, _ := strconv.Atoi(num)
			t := now.Add(time.Duration(sec) * time.Second).UTC()
			switch form {
			case "rfc850":
				ex = t.Format("Monday, 02-Jan-06 15:04:05 GMT")
			case "asctime":
				ex = t.Format(time.ANSIC)
			default:
				ex = t.Format(http.TimeFormat)
			}
		}
		h.Set("Expires", ex)
	}
	etag := etagOf(r, rid, v)
	if etag != "" {
		h.Set("ETag", etag)
	}
	lastMod := ""
	if r.LastMod {
		lastMod = w.versionBirth(ri, v).UTC().Format(http.TimeFormat)
		switch r.LastModForm {
		case "rfc850":
			lastMod = w.versionBirth(ri, v).UTC().Format("Monday, 02-Jan-06 15:04:05 GMT")
		case "asctime":
			lastMod = w.versionBirth(ri, v).UTC().Format(time.ANSIC)
		case "junk":
			lastMod = fmt.Sprintf("version %d, some time ago", v)
		}
		h.Set("Last-Modified", lastMod)
	}
	h.Set("Content-Type", fmt.Sprintf("application/x-sim; v=%d", v))
	for _, kv := range r.Extra {
		h.Add(kv[0], kv[1])
	}
	status := r.Status
	if status == 0 {
		status = 200
	}
	full := body(rid, v, r.Size+v*r.SizeStep)
	if r.Gzip && (status == 200 || status == 203) && strings.Contains(req.Header.Get("Accept-Encoding"), "gzip") {
		// an origin that compresses for whoever asks for it (and only then)
		var zb bytes.Buffer
		zw := gzip.NewWriter(&zb)
		zw.Write(full)
		zw.Close()
		full = zb.Bytes()
		h.Set("Content-Encoding", "gzip")
		h.Add("Vary", "Accept-Encoding")
		w.res.probe("origin_compressed_on_request")
	}
	out := full

	if r.Redirect > 0 {
		t := &w.p.Res[r.Redirect-1]
		h.Set("Location", "http://"+t.Host+t.Path)
		status = 302
		out = []byte("moved\n")
	} else if e.Cond && req.Method != "POST" {
		if r.EvictOnCond {
			// the fault lands inside the revalidation: after the proxy looked the stale entry up,
			// before it can renew it
			for _, k := range w.px.VerifCacheKeys() {
				if w.px.VerifCacheDelete(k) == nil {
					w.res.fault("entry_evicted_during_revalidation")
				}
			}
		}
		mode := r.CondMode
		if mode == "" {
			mode = "304"
		}
		switch mode {
		case "304":
			if matchValidators(req, etag, lastMod, w.versionBirth(ri, v)) {
				status = 304
				out = nil
				if r.CondDelayMs > 0 {
					// an origin that takes its time over a revalidation
					w.sim.WaitUntil("harness:origin-slow-304", time.Now().Add(time.Duration(r.CondDelayMs)*time.Millisecond))
				}
			}
		case "404":
			status, out = 404, []byte("gone\n")
		case "500":
			status, out = 500, []byte("origin error\n")
		case "503-once":
			// a transient failure of the first conditional request, proper revalidation afterwards
			w.mu.Lock()
			first := !w.cond503[ri]
			w.cond503[ri] = true
			w.mu.Unlock()
			if first {
				status, out = 503, []byte("try again\n")
			} else if matchValidators(req, etag, lastMod, w.versionBirth(ri, v)) {
				status, out = 304, nil
			}
		}
	}
	if status == 200 || status == 206 {
		if rg := req.Header.Get("Range"); rg != "" {
			switch r.RangeMode {
			case "honor":
				if a, b, ok := refParseRange(rg, int64(len(full))); ok {
					status = 206
					out = full[a : b+1]
					h.Set("Content-Range", fmt.Sprintf("bytes %d-%d/%d", a, b, len(full)))
				}
			case "416":
				status = 416
				out = []byte("range not satisfiable\n")
				h.Set("Content-Range", fmt.Sprintf("bytes */%d", len(full)))
				if r.Hdr416 != "" {
					// an error answer rarely carries the cache headers of the representation
					h.Del("Cache-Control")
					h.Del("Expires")
					if r.Hdr416 != "none" {
						h.Set("Cache-Control", r.Hdr416)
					}
				}
			}
		}
	}
	if req.Method == http.MethodHead {
		out = nil
	}
	if !r.NoLength && status != 304 {
		if req.Method == http.MethodHead {
			h.Set("Content-Length", strconv.Itoa(len(full)))
		} else {
			h.Set("Content-Length", strconv.Itoa(len(out)))
		}
	}
	e.Status = status
	e.RespHdr = h.Clone()
	e.RespBody = out

	abortAt := 0
	if r.AbortAt > 0 && len(out) > r.AbortAt {
		n := r.AbortN
		if n == 0 {
			n = 1
		}
		w.mu.Lock()
		if w.aborted[ri] < n {
			w.aborted[ri]++
			abortAt = r.AbortAt
		}
		w.mu.Unlock()
	}
	if conn := h.Values("Connection"); len(conn) > 0 {
		// net/http's server rewrites a handler-set Connection header when the request said
		// "Connection: close"; write the response by hand so that the nominated names are on the wire
		if hj, ok := rw.(http.Hijacker); ok {
			c, _, err := hj.Hijack()
			if err == nil {
				var b bytes.Buffer
				fmt.Fprintf(&b, "HTTP/1.1 %d %s\r\n", status, http.StatusText(status))
				names := make([]string, 0, len(h))
				for k := range h {
					names = append(names, k)
				}
				sort.Strings(names)
				for _, k := range names {
					if k == "Connection" || k == "Content-Length" {
						continue
					}
					for _, v := range h[k] {
						fmt.Fprintf(&b, "%s: %s\r\n", k, v)
					}
				}
				if !r.NoDate {
					fmt.Fprintf(&b, "Date: %s\r\n", now.UTC().Format(http.TimeFormat))
				}
				// an origin that was asked to close says so, next to its own nominations
				askedClose := req.Close || strings.Contains(strings.ToLower(strings.Join(req.Header.Values("Connection"), ",")), "close")
				if askedClose && !r.NoCloseEcho {
					fmt.Fprintf(&b, "Connection: %s, close\r\n", strings.Join(conn, ", "))
					e.RespHdr.Add("X-Sim-Wire-Connection-Close", "1")
				} else {
					fmt.Fprintf(&b, "Connection: %s\r\n", strings.Join(conn, ", "))
				}
				bodyLen := len(out)
				if req.Method == http.MethodHead {
					bodyLen = len(full)
				}
				if status != 304 && status != 204 {
					fmt.Fprintf(&b, "Content-Length: %d\r\n", bodyLen)
				}
				b.WriteString("\r\n")
				if req.Method != http.MethodHead {
					b.Write(out)
				}
				c.Write(b.Bytes())
				c.Close()
				e.Finished = true
				e.DoneSeq = w.nextSeq()
				return
			}
		}
	}
	rw.WriteHeader(status)
	fl, _ := rw.(http.Flusher)
	if len(out) == 0 {
		e.Finished = true
		e.DoneSeq = w.nextSeq()
		return
	}
	if r.AbortAfterHead {
		n := r.AbortN
		if n == 0 {
			n = 1
		}
		w.mu.Lock()
		doIt := w.aborted[ri] < n
		if doIt {
			w.aborted[ri]++
		}
		w.mu.Unlock()
		if doIt {
			// the complete head, announcing a body, and then nothing: the connection goes away
			if fl != nil {
				fl.Flush()
			}
			e.Aborted = true
			e.DoneSeq = w.nextSeq()
			w.res.fault("origin_abort_after_head")
			w.sim.Yield("harness:origin-abort")
			panic(http.ErrAbortHandler)
		}
	}
	chunk := r.Chunk
	if chunk <= 0 || chunk > len(out) {
		chunk = len(out)
	}
	if abortAt > 0 && chunk > abortAt {
		chunk = abortAt
	}
	if r.NoLength && fl != nil {
		fl.Flush()
	}
	sent := 0
	for sent < len(out) {
		n := min(chunk, len(out)-sent)
		if abortAt > 0 && sent+n > abortAt {
			n = abortAt - sent
		}
		if n > 0 {
			rw.Write(out[sent : sent+n])
			sent += n
		}
		if abortAt > 0 && sent >= abortAt {
			if fl != nil {
				fl.Flush()
			}
			e.Aborted = true
			e.DoneSeq = w.nextSeq()
			w.res.fault("origin_abort")
			w.sim.Yield("harness:origin-abort")
			panic(http.ErrAbortHandler)
		}
		if sent < len(out) {
			if fl != nil {
				fl.Flush()
			}
			w.sim.Yield("harness:origin-chunk")
		}
	}
	e.Finished = true
	e.DoneSeq = w.nextSeq()
}

func matchValidators(req *http.Request, etag, lastMod string, birth time.Time) bool {
	if inm := req.Header.Get("If-None-Match"); inm != "" && etag != "" {
		return strings.TrimPrefix(inm, "W/") == strings.TrimPrefix(etag, "W/")
	}
	if ims := req.Header.Get("If-Modified-Since"); ims != "" && lastMod != "" {
		if t, err := http.ParseTime(ims); err == nil {
			return !birth.After(t)
		}
	}
	return false
}

// refParseRange: RFC 9110 single byte-range against a representation of the given size.
func refParseRange(s string, size int64) (a, b int64, ok bool) {
	if !strings.HasPrefix(s, "bytes=") {
		return 0, 0, false
	}
	spec := strings.TrimSpace(s[len("bytes="):])
	if strings.Contains(spec, ",") {
		return 0, 0, false
	}
	i := strings.IndexByte(spec, '-')
	if i < 0 {
		return 0, 0, false
	}
	first, last := strings.TrimSpace(spec[:i]), strings.TrimSpace(spec[i+1:])
	isNum := func(x string) bool {
		if x == "" || len(x) > 18 {
			return false
		}
		for _, c := range x {
			if c < '0' || c > '9' {
				return false
			}
		}
		return true
	}
	if first == "" {
		if !isNum(last) {
			return 0, 0, false
		}
		n, _ := strconv.ParseInt(last, 10, 64)
		if n == 0 || size == 0 {
			return 0, 0, false
		}
		if n > size {
			n = size
		}
		return size - n, size - 1, true
	}
	if !isNum(first) {
		return 0, 0, false
	}
	a, _ = strconv.ParseInt(first, 10, 64)
	if a >= size {
		return 0, 0, false
	}
	if last == "" {
		return a, size - 1, true
	}
	if !isNum(last) {
		return 0, 0, false
	}
	b, _ = strconv.ParseInt(last, 10, 64)
	if b < a {
		return 0, 0, false
	}
	if b >= size {
		b = size - 1
	}
	return a, b, true
}

// ---------------------------------------------------------------------------
// clients

type clientConn struct {
	raw  *simConn
	rw   io.ReadWriter
	br   *bufio.Reader
	tls  *tls.Conn
	host string
}

func (cc *clientConn) close() {
	if cc.tls != nil {
		cc.tls.Close()
	}
	cc.raw.Close()
}

func (w *proxyWorld) resOf(q *PReq) *PRes { return &w.p.Res[q.Res] }

func (w *proxyWorld) openConn(ci, n int, host string, helloDelay time.Duration) (*clientConn, string) {
	buf := w.p.NetBuf
	if buf == 0 {
		buf = 64 << 10
	}
	raw, err := w.pxLn.Dial(fmt.Sprintf("client%d.%d", ci, n), buf)
	if err != nil {
		return nil, "dial: " + err.Error()
	}
	cc := &clientConn{raw: raw, rw: raw, br: bufio.NewReader(raw), host: host}
	if w.p.Transport != "connect" {
		return cc, ""
	}
	target := host
	if !strings.Contains(host, ":") || strings.HasSuffix(host, "]") {
		target = host + ":443"
	}
	fmt.Fprintf(raw, "CONNECT %s HTTP/1.1\r\nHost: %s\r\n\r\n", target, target)
	w.sim.Yield("harness:client-connect-sent")
	resp, err := http.ReadResponse(cc.br, &http.Request{Method: "CONNECT"})
	if err != nil {
		raw.Close()
		return nil, "connect response: " + err.Error()
	}
	if resp.StatusCode != 200 {
		raw.Close()
		return nil, fmt.Sprintf("connect status %d", resp.StatusCode)
	}
	sni, _, err := net.SplitHostPort(target)
	if err != nil {
		sni = target
	}
	if helloDelay > 0 {
		// a client that takes its time between the 200 and its ClientHello
		w.sim.WaitUntil("harness:client-hello-delay", time.Now().Add(helloDelay))
	}
	tc := tls.Client(&bufferedConn{Conn: raw, br: cc.br}, &tls.Config{RootCAs: w.caPool, ServerName: sni, Time: time.Now})
	if err := tc.Handshake(); err != nil {
		raw.Close()
		return nil, "tls handshake: " + err.Error()
	}
	st := tc.ConnectionState()
	if len(st.PeerCertificates) > 0 {
		w.mu.Lock()
		w.tunnelCerts = append(w.tunnelCerts, st.PeerCertificates[0])
		w.tunnelHosts = append(w.tunnelHosts, sni)
		w.tunnelTimes = append(w.tunnelTimes, time.Now())
		w.mu.Unlock()
	}
	cc.tls = tc
	cc.rw = tc
	cc.br = bufio.NewReader(tc)
	w.sim.Yield("harness:client-tunnel-up")
	return cc, ""
}

type bufferedConn struct {
	net.Conn
	br *bufio.Reader
}

func (b *bufferedConn) Read(p []byte) (int, error) { return b.br.Read(p) }

func (w *proxyWorld) buildRequest(q *PReq, last *Exch) (method string, wire []byte) {
	if q.Raw != "" {
		m := "GET"
		if i := strings.IndexByte(q.Raw, ' '); i > 0 {
			m = q.Raw[:i]
		}
		return m, []byte(q.Raw)
	}
	r := w.resOf(q)
	method = q.Method
	if method == "" {
		method = "GET"
	}
	host := r.Host
	if q.HostHdr != "" {
		host = q.HostHdr
	}
	target := r.Path
	if q.Target != "" {
		target = q.Target
	}
	var b bytes.Buffer
	if w.p.Transport == "connect" {
		fmt.Fprintf(&b, "%s %s HTTP/1.1\r\n", method, target)
	} else {
		fmt.Fprintf(&b, "%s http://%s%s HTTP/1.1\r\n", method, host, target)
	}
	fmt.Fprintf(&b, "Host: %s\r\n", host)
	if q.Range != "" {
		fmt.Fprintf(&b, "Range: %s\r\n", q.Range)
	}
	if q.IfRange != "" {
		v := q.IfRange
		if last != nil && last.Hdr != nil {
			switch v {
			case "@etag":
				v = last.Hdr.Get("ETag")
			case "@lastmod":
				v = last.Hdr.Get("Last-Modified")
			}
		}
		if v == "@empty" {
			b.WriteString("If-Range: \r\n")
		} else if v != "" && v[0] != '@' {
			fmt.Fprintf(&b, "If-Range: %s\r\n", v)
		}
	}
	for _, kv := range q.Hdr {
		fmt.Fprintf(&b, "%s: %s\r\n", kv[0], kv[1])
	}
	if q.Expect100 && q.Body > 0 {
		b.WriteString("Expect: 100-continue\r\n")
	}
	if q.Body > 0 || method == "POST" || method == "PUT" || method == "PATCH" {
		bd := body(7777, q.Body, q.Body)
		if q.BodyIsRequest {
			// content that reads like a request of its own: whoever mistakes it for one answers it
			bd = []byte(fmt.Sprintf("GET %s HTTP/1.1\r\nHost: %s\r\n\r\n", w.p.Res[0].Path, w.p.Res[0].Host))
		}
		if q.ChunkedReq {
			b.WriteString("Transfer-Encoding: chunked\r\n\r\n")
			for off := 0; off < len(bd); off += 1000 {
				end := min(off+1000, len(bd))
				fmt.Fprintf(&b, "%x\r\n", end-off)
				b.Write(bd[off:end])
				b.WriteString("\r\n")
			}
			b.WriteString("0\r\n\r\n")
		} else {
			fmt.Fprintf(&b, "Content-Length: %d\r\n\r\n", len(bd))
			b.Write(bd)
		}
	} else {
		b.WriteString("\r\n")
	}
	return method, b.Bytes()
}

func (w *proxyWorld) clientTask(ci int) {
	var cc *clientConn
	var last *Exch
	nconn := 0
	// pipelining: requests held back to be written together with the next one
	type held struct {
		ex     *Exch
		method string
		q      PReq
	}
	var pipe []held
	var pipeBuf []byte
	// one exchange of this client is on its way (sent or being sent, not yet finished); kept as a
	// counter of its own because the exchange records are written without a lock by their client
	mine := false
	defer func() {
		if mine {
			w.inflight.Add(-1)
		}
	}()
	for qi := range w.p.Clients[ci] {
		q := w.p.Clients[ci][qi]
		if mine {
			w.inflight.Add(-1)
			mine = false
		}
		if q.AtMs > 0 {
			at := w.start.Add(time.Duration(q.AtMs) * time.Millisecond)
			if time.Now().Before(at) {
				if cc != nil && !q.SameConn {
					cc.close()
					cc = nil
				}
				w.sim.WaitUntil("harness:client-at", at)
			}
		}
		if q.Cfg != "" {
			var doc map[string]any
			ex := &Exch{Client: ci, Idx: qi, Req: q}
			if err := json.Unmarshal([]byte(q.Cfg), &doc); err != nil {
				ex.CfgErr = err.Error()
			} else if st, err := config.UpdatePartialFromConfig(w.cfg, doc); err != nil || st == config.UpdateStatusFailed {
				ex.CfgErr = fmt.Sprint("rejected: ", err)
			}
			ex.SendSeq, ex.SendStep, ex.SendT = w.nextSeq(), w.sim.Steps, time.Now()
			ex.RecvSeq, ex.RecvT = w.nextSeq(), time.Now()
			w.mu.Lock()
			w.exch = append(w.exch, ex)
			w.mu.Unlock()
			w.res.fault("config_changed_at_run_time")
			continue
		}
		if q.Truncate > 0 {
			// Damage to stored bodies at rest only: while a response is on its way its head has been
			// sent and nothing can be done about a body that ends early, and a store in progress writes
			// to a temporary file of its own. So the disk loses bytes only at instants at which no client
			// is waiting for anything, and only from files that are entries.
			if w.inflight.Load() > 0 {
				w.res.probe("disk_damage_skipped_exchange_in_flight")
				continue
			}
			files, _ := os.ReadDir(filepath.Join(w.dir, "cache"))
			for _, f := range files {
				if strings.HasSuffix(f.Name(), ".tmp") {
					continue
				}
				pth := filepath.Join(w.dir, "cache", f.Name())
				if st, err := os.Stat(pth); err == nil && !st.IsDir() && st.Size() > int64(q.Truncate) {
					if os.Truncate(pth, st.Size()-int64(q.Truncate)) == nil {
						w.res.fault("cache_file_truncated")
					}
				}
			}
			continue
		}
		if q.Evict {
			for _, k := range w.px.VerifCacheKeys() {
				if w.px.VerifCacheDelete(k) == nil {
					w.res.fault("entry_evicted_by_actor")
				}
			}
			continue
		}
		ex := &Exch{Client: ci, Idx: qi, Req: q}
		w.mu.Lock()
		w.exch = append(w.exch, ex)
		w.mu.Unlock()
		w.inflight.Add(1)
		mine = true
		if cc != nil && !q.SameConn {
			cc.close()
			cc = nil
		}
		if cc == nil {
			host := ""
			if q.Raw == "" {
				host = w.resOf(&q).Host
				if q.HostHdr != "" {
					host = q.HostHdr
				}
			} else {
				host = "raw.test"
			}
			var terr string
			ex.TunnelOpenSeq = w.nextSeq()
			cc, terr = w.openConn(ci, nconn, host, time.Duration(q.HelloDelayMs)*time.Millisecond)
			nconn++
			ex.ConnHost = host
			if cc == nil {
				ex.TunnelFail = terr
				ex.Err = terr
				ex.SendSeq = w.nextSeq()
				ex.SendT = time.Now()
				ex.RecvSeq = w.nextSeq()
				continue
			}
			if cc.tls != nil {
				if pcs := cc.tls.ConnectionState().PeerCertificates; len(pcs) > 0 {
					ex.Leaf = pcs[0]
				}
				ex.TunnelUpSeq, ex.TunnelUpT = w.nextSeq(), time.Now()
			}
		} else {
			ex.ConnReused = true
		}
		method, wire := w.buildRequest(&q, last)
		ex.Method = method
		ex.SendSeq, ex.SendStep, ex.SendT = w.nextSeq(), w.sim.Steps, time.Now()
		if nq := qi + 1; q.PipeNext && nq < len(w.p.Clients[ci]) && w.p.Clients[ci][nq].SameConn && w.p.Clients[ci][nq].AtMs == q.AtMs && q.Disconnect == 0 {
			// held back: goes out in one write with the next request
			pipe = append(pipe, held{ex, method, q})
			pipeBuf = append(pipeBuf, wire...)
			w.res.probe("pipelined_request")
			continue
		}
		if len(pipe) > 0 {
			wire = append(pipeBuf, wire...)
			pipeBuf = nil
		}
		if hd := bytes.Index(wire, []byte("\r\n\r\n")); q.Expect100 && q.Raw == "" && len(pipe) == 0 && hd > 0 && hd+4 < len(wire) {
			// "Expect: 100-continue": the head first, then a second for the interim answer (or a
			// final one), then the content, as clients with an expectation do
			if _, err := cc.rw.Write(wire[:hd+4]); err == nil {
				w.sim.WaitUntil("harness:client-expect", time.Now().Add(time.Second))
				ex.Interim = w.awaitInterim(cc, method)
				wire = wire[hd+4:]
				if ex.Interim == -1 {
					wire = nil // a final answer came instead: the content is not sent
				}
				w.res.probe("expect_100_continue")
			}
		}
		if len(wire) == 0 {
			// nothing (more) to send: the answer is already there
		} else if _, err := cc.rw.Write(wire); err != nil {
			ex.Err = "write: " + err.Error()
			ex.RecvSeq = w.nextSeq()
			cc.close()
			cc = nil
			continue
		}
		ex.Sent = true
		w.sim.Yield("harness:client-sent")
		if q.Disconnect == -1 {
			w.res.fault("client_disconnect_before_response")
			ex.Disconnected = true
			cc.raw.Abort()
			cc = nil
			ex.RecvSeq = w.nextSeq()
			continue
		}
		// the answers to the requests that went out in the same write come first, in order
		broken := false
		for _, h := range pipe {
			h.ex.Sent = true
			if broken {
				h.ex.Err = "connection ended before this pipelined request was answered"
				h.ex.RecvSeq = w.nextSeq()
				continue
			}
			hq := h.q
			if !w.readResponse(cc, h.ex, h.method, &hq) {
				broken = true
			}
			h.ex.RecvSeq, h.ex.RecvStep, h.ex.RecvT = w.nextSeq(), w.sim.Steps, time.Now()
		}
		pipe = nil
		if broken {
			ex.Err = "connection ended before this pipelined request was answered"
			ex.RecvSeq = w.nextSeq()
			cc.close()
			cc = nil
			continue
		}
		keep := w.readResponse(cc, ex, method, &q)
		ex.RecvSeq, ex.RecvStep, ex.RecvT = w.nextSeq(), w.sim.Steps, time.Now()
		if ex.Complete && q.Raw == "" {
			for _, kv := range q.Hdr {
				if strings.EqualFold(kv[0], "Connection") && strings.EqualFold(kv[1], "close") {
					ex.Unsolicited = w.lingerForUnsolicited(cc)
					keep = false
				}
			}
		}
		last = ex
		if !keep {
			cc.close()
			cc = nil
		}
	}
	if cc != nil {
		cc.close()
	}
}

// readResponse parses one response; returns whether the connection can be reused.
func (w *proxyWorld) readResponse(cc *clientConn, ex *Exch, method string, q *PReq) bool {
	resp, err := http.ReadResponse(cc.br, &http.Request{Method: method})
	for err == nil && q.Expect100 && resp.StatusCode == 100 {
		// an interim answer that came after the client had stopped waiting for it: clients skip it
		if ex.Interim == 0 {
			ex.Interim = 100
			ex.LateInterim = true
		}
		resp, err = http.ReadResponse(cc.br, &http.Request{Method: method})
	}
	if err != nil {
		ex.Err = "read response: " + err.Error()
		return false
	}
	ex.Status = resp.StatusCode
	ex.Hdr = resp.Header
	ex.TE = append([]string{}, resp.TransferEncoding...)
	ex.CL = resp.ContentLength
	ex.HdrT = time.Now()
	chunk := q.ReadChunk
	if chunk <= 0 {
		chunk = 1 << 20
	}
	buf := make([]byte, chunk)
	var got []byte
	for {
		n, rerr := resp.Body.Read(buf)
		got = append(got, buf[:n]...)
		if q.Disconnect > 0 && len(got) >= q.Disconnect {
			w.res.fault("client_disconnect_mid_body")
			ex.Disconnected = true
			ex.Body = got
			cc.raw.Abort()
			return false
		}
		if rerr == io.EOF {
			ex.Complete = true
			break
		}
		if rerr != nil {
			ex.Err = "read body: " + rerr.Error()
			break
		}
		if n > 0 && q.ReadChunk > 0 {
			w.sim.Yield("harness:client-read")
		}
		if len(got) > 64<<20 {
			ex.Err = "unbounded body"
			break
		}
	}
	ex.Body = got
	if !ex.Complete {
		return false
	}
	return !resp.Close
}

// ---------------------------------------------------------------------------
// world set-up / tear-down

func (w *proxyWorld) makeCA() {
	priv, _ := ecdsa.GenerateKey(elliptic.P256(), rand.Reader)
	serial, _ := rand.Int(rand.Reader, new(big.Int).Lsh(big.NewInt(1), 100))
	tmpl := x509.Certificate{
		SerialNumber: serial, Subject: pkix.Name{Organization: []string{"sim-ca"}},
		NotBefore: time.Now().Add(-time.Hour), NotAfter: time.Now().Add(20000 * time.Hour),
		KeyUsage: x509.KeyUsageCertSign | x509.KeyUsageDigitalSignature, BasicConstraintsValid: true, IsCA: true,
	}
	der, err := x509.CreateCertificate(rand.Reader, &tmpl, &tmpl, &priv.PublicKey, priv)
	if err != nil {
		panic(err)
	}
	cf, kf := filepath.Join(w.dir, "ca.crt"), filepath.Join(w.dir, "ca.key")
	os.WriteFile(cf, pem.EncodeToMemory(&pem.Block{Type: "CERTIFICATE", Bytes: der}), 0o600)
	pk, _ := x509.MarshalPKCS8PrivateKey(priv)
	os.WriteFile(kf, pem.EncodeToMemory(&pem.Block{Type: "PRIVATE KEY", Bytes: pk}), 0o600)
	ca, err := certs.NewPrivateCA(cf, kf)
	if err != nil {
		panic(err)
	}
	w.ca = ca
	w.caCert, _ = x509.ParseCertificate(der)
	w.caPool = x509.NewCertPool()
	w.caPool.AddCert(w.caCert)
}

type noCA struct{}

func (noCA) GetCertForHost(host string) (*tls.Certificate, error) {
	return nil, errors.New("no CA in this scenario")
}

func stageBool(p *config.ConfigProp[bool], v bool) { p.Stage(v); p.CommitStaged() }

func (w *proxyWorld) buildConfig() *config.Config {
	p := w.p
	cfg := config.NewDefault()
	cfg.Cache.MaxCacheSize.Stage(bytesize.ByteSize(p.MaxSize))
	cfg.Cache.MaxCacheSize.CommitStaged()
	if p.MemBudget0 {
		cfg.Cache.Memory.MemoryBudgetPercent.Stage(0)
		cfg.Cache.Memory.MemoryBudgetPercent.CommitStaged()
	}
	cfg.Cache.CleanupInterval.Stage(duration.Duration(time.Duration(p.IntervalMs) * time.Millisecond))
	cfg.Cache.CleanupInterval.CommitStaged()
	cfg.Cache.LockShards.Stage(p.Shards)
	cfg.Cache.LockShards.CommitStaged()
	if p.Backend == "file" {
		cfg.Cache.Type.Stage(config.CacheTypeFile)
	} else {
		cfg.Cache.Type.Stage(config.CacheTypeMemory)
	}
	cfg.Cache.Type.CommitStaged()
	cfg.Cache.File.Dir.Stage(filepath.Join(w.dir, "cache"))
	cfg.Cache.File.Dir.CommitStaged()
	stageBool(&cfg.Proxy.UpstreamDefaultHttps, false)
	stageBool(&cfg.Proxy.RetryOnRange416, p.Retry416)
	stageBool(&cfg.Proxy.RetryOnInvalidRange, p.RetryRange)
	stageBool(&cfg.Proxy.CachePolicy.IgnoreCacheControl, p.IgnoreCC)
	stageBool(&cfg.Proxy.CachePolicy.ForceDefaultMaxAge, p.ForceDef)
	cfg.Proxy.CachePolicy.DefaultMaxAge.Stage(duration.Duration(time.Duration(p.DefaultAgeS) * time.Second))
	cfg.Proxy.CachePolicy.DefaultMaxAge.CommitStaged()
	return cfg
}

func runProxyPlan(t *testing.T, planAny any, ctl Ctl) *Result {
	w, res := execProxyPlan(t, planAny.(*ProxyPlan), ctl)
	if res.Infra != "" {
		return res
	}
	judgeProxy(w, res)
	return res
}

// execProxyPlan runs one world and returns it with the recorded exchanges, unjudged.
func execProxyPlan(t *testing.T, p *ProxyPlan, ctl Ctl) (*proxyWorld, *Result) {
	res := newResult()
	takeSimnetNotes()
	dir := newRunDir()
	os.Chdir(dir)
	os.MkdirAll(filepath.Join(dir, "var"), 0o755)
	defer os.RemoveAll(dir)
	w := &proxyWorld{p: p, dir: dir, res: res, reqCnt: map[int]int{}, aborted: map[int]int{}, cond503: map[int]bool{}}
	oldTransport := http.DefaultTransport
	defer func() { http.DefaultTransport = oldTransport }()
	slog.SetDefault(slog.New(errSlog{w}))
	defer slog.SetDefault(slog.New(slog.DiscardHandler))
	bubble(t, res, func() {
		metrics.Global = metrics.NewMetrics()
		s := zzsim.New(ctl.Seed, racePol(p.Pol))
		if ctl.Replay != nil {
			s.SetReplay(ctl.Replay, ctl.Guided)
		}
		w.sim = s
		s.Attach()
		defer s.Detach()
		s.Exempt()
		w.start = time.Now()
		w.cfg = w.buildConfig()
		if p.Transport == "connect" {
			w.makeCA()
		} else {
			w.ca = noCA{}
		}
		simnetBegin(true)
		s.Quiesced = simnetDeliver
		w.pxLn = newListener("proxy")
		w.orLn = newListener("origin")
		buf := p.NetBuf
		if buf == 0 {
			buf = 64 << 10
		}
		tr := &http.Transport{
			DialContext: func(ctx context.Context, network, addr string) (net.Conn, error) {
				host, _, _ := net.SplitHostPort(addr)
				if strings.HasPrefix(host, "down.") {
					w.res.fault("origin_unreachable")
					return nil, &net.OpError{Op: "dial", Net: "sim", Err: syscall.ECONNREFUSED}
				}
				w.mu.Lock()
				n := w.dialN
				w.dialN++
				w.mu.Unlock()
				return w.orLn.Dial(fmt.Sprintf("pxy%d", n), buf)
			},
			DisableKeepAlives: !p.KeepAlive,
		}
		// The proxy sends through http.DefaultTransport and configures it when it starts: the
		// simulated transport has to be in place by then, so that it gets what production gets.
		http.DefaultTransport = tr
		ctx, cancel := context.WithCancel(context.Background())
		px, err := proxy.NewProxy(w.cfg, w.ca, ctx)
		if err != nil {
			panic(err)
		}
		w.px = px
		trk := &trackRT{rt: tr}
		http.DefaultTransport = trk
		elog := log.New(logWriter{w}, "", 0)
		pxSrv := &http.Server{Handler: http.HandlerFunc(func(rw http.ResponseWriter, r *http.Request) {
			name := s.UniqueName("srv:" + r.RemoteAddr)
			leave := s.Adopt(name, false)
			defer leave()
			px.ServeHTTP(rw, r)
		}), ErrorLog: elog}
		orSrv := &http.Server{Handler: http.HandlerFunc(w.originHandler), ErrorLog: log.New(io.Discard, "", 0)}
		go pxSrv.Serve(w.pxLn)
		go orSrv.Serve(w.orLn)
		s.Unexempt()

		if p.DiskLimit > 0 && p.Backend == "file" {
			restore := setFsizeLimit(uint64(p.DiskLimit))
			defer restore()
			for _, r := range p.Res {
				if r.Size > p.DiskLimit {
					res.Faults["disk_short_write"]++
				}
			}
		}
		var names []string
		for ci := range p.Clients {
			ci := ci
			n := fmt.Sprintf("client:%d", ci)
			names = append(names, n)
			s.Spawn(n, func() { w.clientTask(ci) })
		}
		end := s.Run(func() bool {
			for _, n := range names {
				if !s.TaskDone(n) {
					return false
				}
			}
			return true
		})
		finishSched(res, s, end)
		if end == "stuck" {
			res.violate("C14.a", "stuck proxy", "no task can make progress: %s", s.Stuck)
		}
		for _, pm := range s.Panics {
			res.violate("C16.b", "task panic", "task panicked: %s", pm)
		}
		// teardown
		s.Quiesced = nil
		simnetImmediate()
		cancel()
		w.pxLn.Close()
		w.orLn.Close()
		w.pxLn.CloseAll()
		w.orLn.CloseAll()
		pxSrv.Close()
		orSrv.Close()
		tr.CloseIdleConnections()
		px.Destroy()
		s.DrainGraceful()
		// a handler killed between receiving an upstream response and the point where its
		// body is handed to a deferred Close leaves the transport's readLoop waiting for it
		trk.closeAll()
		tr.CloseIdleConnections()
		for i := 0; i < 20; i++ {
			synctest.Wait()
			if px.VerifDrainIntervalChan() == 0 {
				break
			}
		}
	})
	w.netNotes = takeSimnetNotes()
	if res.Infra != "" {
		return w, res
	}
	sort.SliceStable(w.exch, func(i, j int) bool { return w.exch[i].SendSeq < w.exch[j].SendSeq })
	return w, res
}

// trackRT passes every upstream round trip through unchanged and remembers the response
// bodies so that teardown can close the ones a killed task never got to.
type trackRT struct {
	rt     http.RoundTripper
	mu     sync.Mutex
	bodies []io.Closer
}

func (t *trackRT) RoundTrip(r *http.Request) (*http.Response, error) {
	resp, err := t.rt.RoundTrip(r)
	if resp != nil && resp.Body != nil {
		t.mu.Lock()
		t.bodies = append(t.bodies, resp.Body)
		t.mu.Unlock()
	}
	return resp, err
}

func (t *trackRT) closeAll() {
	t.mu.Lock()
	bs := t.bodies
	t.bodies = nil
	t.mu.Unlock()
	for _, b := range bs {
		b.Close()
	}
}
