package zzharness

// C15: the race detector as judge (DESIGN.md §2.7). The worlds of the other
// scenarios run with Policy.Overlap > 1 under a -race build; the detector's
// reports are read from its log after every run and normalised to the pair of
// innermost reservoir frames.

import (
	"os"
	"path/filepath"
	"regexp"
	"sort"
	"strings"
)

var raceLogOffset = map[string]int64{}

type raceReport struct {
	Pair    string
	Excerpt string
	Harness bool
}

// "  pkg.(*T[go.shape.struct { K int }]).Method()" -- the function name may contain spaces
var frameRe = regexp.MustCompile(`^\s{2}(\S.*)\([^()]*\)$`)

func raceLogFiles() []string {
	p := os.Getenv("VERIF_RACE_LOG")
	if p == "" {
		return nil
	}
	fs, _ := filepath.Glob(p + ".*")
	return fs
}

// collectRaceReports returns the reports written since the last call.
func collectRaceReports() []raceReport {
	var out []raceReport
	for _, f := range raceLogFiles() {
		b, err := os.ReadFile(f)
		if err != nil {
			continue
		}
		off := raceLogOffset[f]
		if int64(len(b)) <= off {
			continue
		}
		raceLogOffset[f] = int64(len(b))
		text := string(b[off:])
		for _, blk := range strings.Split(text, "==================") {
			if !strings.Contains(blk, "WARNING: DATA RACE") {
				continue
			}
			out = append(out, parseRaceBlock(blk))
		}
	}
	return out
}

// normFunc strips generic instantiations, closure numbering and the module prefix.
func normFunc(fn string) string {
	var b strings.Builder
	depth := 0
	for _, c := range fn {
		switch c {
		case '[':
			depth++
		case ']':
			depth--
		default:
			if depth == 0 {
				b.WriteRune(c)
			}
		}
	}
	fn = b.String()
	fn = regexp.MustCompile(`\.func\d.*$`).ReplaceAllString(fn, ".func")
	fn = regexp.MustCompile(`(\.\d+)+$`).ReplaceAllString(fn, "")
	return strings.TrimPrefix(fn, "reservoir/")
}

func parseRaceBlock(blk string) raceReport {
	// sections: "<Write|Read> at ... by goroutine N:" and "Previous <write|read> at ... by goroutine M:"
	lines := strings.Split(blk, "\n")
	var sections [][]string
	var cur []string
	inAccess := false
	for _, l := range lines {
		switch {
		case strings.HasPrefix(l, "Write at ") || strings.HasPrefix(l, "Read at ") || strings.HasPrefix(l, "Previous write at ") || strings.HasPrefix(l, "Previous read at "):
			if cur != nil {
				sections = append(sections, cur)
			}
			cur = []string{l}
			inAccess = true
		case strings.HasPrefix(l, "Goroutine ") || strings.HasPrefix(l, "WARNING"):
			if cur != nil {
				sections = append(sections, cur)
				cur = nil
			}
			inAccess = false
		default:
			if inAccess && cur != nil {
				cur = append(cur, l)
			}
		}
	}
	if cur != nil {
		sections = append(sections, cur)
	}
	var sides []string
	harness := true
	for _, sec := range sections {
		kind := "read"
		if strings.Contains(strings.ToLower(sec[0]), "write") {
			kind = "write"
		}
		// the innermost frame that is not the Go runtime decides whose access this is
		fn, file := "", ""
		for i := 1; i < len(sec); i++ {
			m := frameRe.FindStringSubmatch(sec[i])
			if m == nil {
				continue
			}
			name := m[1]
			if strings.HasPrefix(name, "runtime.") || strings.HasPrefix(name, "sync/atomic.") || strings.HasPrefix(name, "internal/") {
				continue
			}
			fn = name
			if i+1 < len(sec) {
				file = strings.TrimSpace(sec[i+1])
				if j := strings.Index(file, "/reservoir/"); j >= 0 {
					file = file[j+len("/reservoir/"):]
				}
				if j := strings.LastIndexByte(file, ':'); j >= 0 {
					file = file[:j]
				}
			}
			break
		}
		switch {
		case fn == "":
			sides = append(sides, kind+" (no frame)")
		case strings.HasPrefix(fn, "reservoir/zzharness") || strings.HasPrefix(fn, "reservoir/zzsim"):
			// a harness callback invoked by reservoir code (e.g. the modifier handed to UpdateMetadata,
			// a config subscriber) stands for the callback the proxy itself would pass
			under := ""
			for i := 1; i < len(sec); i++ {
				if m := frameRe.FindStringSubmatch(sec[i]); m != nil && strings.HasPrefix(m[1], "reservoir/") && !strings.HasPrefix(m[1], "reservoir/zz") {
					under = normFunc(m[1])
					break
				}
			}
			if under != "" && !strings.Contains(under, "zzsim") {
				harness = false
				sides = append(sides, kind+" in callback run by "+under)
			} else {
				sides = append(sides, kind+" in harness")
			}
		case strings.HasPrefix(fn, "reservoir/"):
			harness = false
			sides = append(sides, kind+" in "+normFunc(fn)+" ("+file+")")
		default:
			// standard library or third-party code called by reservoir: name the calling reservoir frame
			caller := ""
			for i := 1; i < len(sec); i++ {
				if m := frameRe.FindStringSubmatch(sec[i]); m != nil && strings.HasPrefix(m[1], "reservoir/") && !strings.HasPrefix(m[1], "reservoir/zz") {
					caller = m[1]
					if j := strings.IndexByte(caller, '['); j >= 0 {
						caller = caller[:j]
					}
					break
				}
			}
			if caller != "" {
				harness = false
				sides = append(sides, kind+" in "+fn+" called from "+strings.TrimPrefix(caller, "reservoir/"))
			} else {
				sides = append(sides, kind+" in "+fn)
			}
		}
	}
	sort.Strings(sides)
	ex := blk
	if len(ex) > 2500 {
		ex = ex[:2500] + "..."
	}
	return raceReport{Pair: strings.Join(sides, " / "), Excerpt: strings.TrimSpace(ex), Harness: harness}
}
