package zzharness

// Generators for sequential request histories (C03, C04, C06) and the
// generic ProxyPlan shrinker.

import (
	"math/rand/v2"
	"time"

	"reservoir/zzsim"
)

var ccForms = [][]string{
	nil,
	{"max-age=%d"},
	{"Max-Age=%d"},
	{"MAX-AGE=%d"},
	{"public, max-age=%d"},
	{"max-age=%d, must-revalidate"},
	{"s-maxage=10, max-age=%d"},
	{"public", "max-age=%d"},
	{"must-revalidate", "max-age=%d"},
	{`max-age="%d"`},
	{`max-age=%d, ext="a, max-age=3600"`},
	{`ext="x, no-store", max-age=%d`},
	{`ext="say \"hi\", max-age=7200", max-age=%d`},
	// a lifetime longer than a duration in nanoseconds can hold, and one longer than 64 bits: positive all the same
	{"max-age=10000000000"},
	{"public, max-age=99999999999999999999"},
	{"no-store"},
	{"no-cache"},
	{"private"},
	{"No-Store"},
	{"NO-CACHE"},
	{"Private"},
	{"no-cache, max-age=%d"},
	{"private, max-age=%d"},
	{"max-age=%d, no-store"},
	{"max-age=%d", "no-store"},
	{"public", "no-store"},
	{"max-age=abc"},
	{"max-age=abc, no-store"},
	{"max-age="},
	{"public"},
	{"must-revalidate"},
	{"max-age=0"},
}

var expForms = []string{"", "", "", "+60", "+3600", "-60", "0", "-1", "garbage", "+60@rfc850", "-60@rfc850", "+3600@asctime", "+5"}

func fmtCC(form []string, n int) []string {
	var out []string
	for _, f := range form {
		s := f
		for i := 0; i+1 < len(s); i++ {
			if s[i] == '%' && s[i+1] == 'd' {
				s = s[:i] + itoa(n) + s[i+2:]
				break
			}
		}
		out = append(out, s)
	}
	return out
}

func itoa(n int) string {
	if n == 0 {
		return "0"
	}
	neg := n < 0
	if neg {
		n = -n
	}
	var b []byte
	for n > 0 {
		b = append([]byte{byte('0' + n%10)}, b...)
		n /= 10
	}
	if neg {
		b = append([]byte{'-'}, b...)
	}
	return string(b)
}

func seqPolicy() zzsim.Policy {
	return zzsim.Policy{Kind: "sticky", SwitchP: 0.1, Mute: "R6,R7", MaxSteps: 8000}
}

func genSeqPlan(r *rand.Rand, focus string) *ProxyPlan {
	p := &ProxyPlan{Family: "seq"}
	p.Backend = []string{"memory", "file"}[r.IntN(2)]
	p.Shards = []int{1, 4, 32}[r.IntN(3)]
	p.MaxSize = 1 << 40
	p.Transport = "plain"
	if r.IntN(5) == 0 {
		p.Transport = "connect"
	}
	p.IgnoreCC = r.IntN(3) == 0
	p.ForceDef = r.IntN(3) == 0
	p.DefaultAgeS = []int64{1, 90, 3600}[r.IntN(3)]
	p.IntervalMs = 1000 * 3600 * 1000
	if r.IntN(4) == 0 {
		p.IntervalMs = []int64{500, 20000}[r.IntN(2)]
	}
	p.Pol = seqPolicy()
	if r.IntN(3) == 0 {
		p.Pol.Mute = ""
	}
	maxAge := []int{1, 5, 60, 3600}[r.IntN(4)]
	res := PRes{Host: "origin.test", Path: "/obj", Size: []int{10, 300, 5000, 40000}[r.IntN(4)]}
	res.CC = fmtCC(ccForms[r.IntN(len(ccForms))], maxAge)
	res.Expires = expForms[r.IntN(len(expForms))]
	switch r.IntN(4) {
	case 0:
		res.ETag = "strong"
	case 1:
		res.ETag = "strong"
		res.LastMod = true
	case 2:
		res.LastMod = true
	}
	if r.IntN(5) == 0 {
		res.ETag = "weak"
	}
	if res.LastMod && r.IntN(5) == 0 {
		// a date in one of the obsolete forms a recipient must accept, or something that is no date
		res.LastModForm = []string{"rfc850", "asctime", "junk"}[r.IntN(3)]
	}
	if r.IntN(4) == 0 {
		res.DateSkewS = []int{60, 3600, 5, -30}[r.IntN(4)] // the response was generated a while ago (or by a clock that is off)
	}
	// estimate of the lifetime, used only to place requests around it
	L := int64(maxAge) * 1000
	if p.ForceDef || len(res.CC) == 0 {
		L = p.DefaultAgeS * 1000
	}
	gaps := []int64{0, 1, L - 1000, L, L + 1000, 2 * L, p.DefaultAgeS * 1000, p.DefaultAgeS*1000 + 1000, 60000 - 1000, 60000 + 1000, 3600000 + 1000, int64(r.IntN(int(2*L + 2000)))}
	nreq := 2 + r.IntN(4)
	var reqs []PReq
	at := int64(0)
	for i := 0; i < nreq; i++ {
		if i > 0 {
			g := gaps[r.IntN(len(gaps))]
			if g < 0 {
				g = 0
			}
			at += g
		}
		q := PReq{Res: 0, AtMs: at}
		reqs = append(reqs, q)
	}
	switch focus {
	case "c04":
		res.Status = []int{200, 200, 200, 201, 203, 204, 301, 400, 404, 410, 500, 503}[r.IntN(12)]
		reqs[0].Method = []string{"GET", "GET", "HEAD", "POST"}[r.IntN(4)]
		if reqs[0].Method == "POST" {
			reqs[0].Body = 20
		}
		if r.IntN(6) == 0 {
			res.Extra = append(res.Extra, [2]string{"Vary", "Accept"})
		}
		if res.Status == 204 {
			res.Size = 0
		}
	case "c06":
		res.CondMode = []string{"304", "304", "304", "200", "404", "500", "503-once", "503-once"}[r.IntN(8)]
		for i := 0; i < 1+r.IntN(2); i++ {
			res.BumpAtMs = append(res.BumpAtMs, reqs[r.IntN(len(reqs))].AtMs+int64(r.IntN(3))-1)
		}
		for i := range res.BumpAtMs {
			if res.BumpAtMs[i] < 0 {
				res.BumpAtMs[i] = 0
			}
		}
		sortInt64(res.BumpAtMs)
		if len(res.CC) == 0 || r.IntN(2) == 0 {
			res.CC = []string{"max-age=" + itoa(maxAge)}
			res.Expires = ""
		}
		for i := range reqs {
			if i > 0 && r.IntN(8) == 0 && reqs[i].Range == "" {
				// a Range request carrying the client's own validator in an obsolete date form, with a date
				// later than anything the origin has: the origin answers it 304 whatever the proxy holds
				reqs[i].Range = []string{"bytes=0-4", "bytes=2-"}[r.IntN(2)]
				reqs[i].Hdr = append(reqs[i].Hdr, [2]string{"If-Modified-Since", []string{"Friday, 01-Jan-38 00:00:00 GMT", "Fri Jan  1 00:00:00 2038"}[r.IntN(2)]})
				continue
			}
			switch r.IntN(8) {
			case 6:
				// the obsolete HTTP date forms are as valid as the preferred one (RFC 9110 section 5.6.7)
				reqs[i].Hdr = append(reqs[i].Hdr, [2]string{"If-Modified-Since", "Friday, 01-Jan-99 00:00:00 GMT"})
			case 7:
				reqs[i].Hdr = append(reqs[i].Hdr, [2]string{"If-Modified-Since", "Fri Jan  1 00:00:00 1999"})
			case 0:
				reqs[i].Hdr = append(reqs[i].Hdr, [2]string{"If-None-Match", `"client-marker-1"`})
			case 1:
				reqs[i].Hdr = append(reqs[i].Hdr, [2]string{"If-Modified-Since", "Fri, 01 Jan 1999 00:00:00 GMT"})
			case 2:
				reqs[i].Hdr = append(reqs[i].Hdr, [2]string{"If-None-Match", `"client-marker-2"`}, [2]string{"If-Modified-Since", "Fri, 01 Jan 1999 00:00:00 GMT"})
			}
		}
	default:
		if r.IntN(4) == 0 {
			res.BumpAtMs = []int64{at / 2}
		}
	}
	for i := range reqs {
		if r.IntN(4) == 0 {
			reqs[i].ReadChunk = []int{100, 4096}[r.IntN(2)]
		}
	}
	retrySwitch := false
	if r.IntN(5) == 0 && (res.Status == 0 || res.Status == 200) {
		// an origin that refuses ranges: the proxy's retry without Range stores (or relays) a second
		// answer whose own headers decide, and the retry switch decides whether there is one
		res.RangeMode = "416"
		res.Hdr416 = []string{"", "none", "no-store", "max-age=3600"}[r.IntN(4)]
		p.Retry416 = r.IntN(3) != 0
		k := r.IntN(len(reqs))
		if reqs[k].Method == "" && len(reqs[k].Hdr) == 0 {
			reqs[k].Range = []string{"bytes=0-4", "bytes=2-", "bytes=-3"}[r.IntN(3)]
		}
		retrySwitch = r.IntN(2) == 0
		if r.IntN(3) == 0 {
			p.MaxSize = int64(res.Size)/2 + 1 // the cache cannot take the representation: everything is relayed
		}
	}
	if focus != "c06" && r.IntN(4) == 0 && len(reqs) >= 2 {
		// the operator changes the cache policy while the proxy is running
		docs := []string{
			`{"proxy":{"cache_policy":{"ignore_cache_control":true}}}`, `{"proxy":{"cache_policy":{"ignore_cache_control":false}}}`,
			`{"proxy":{"cache_policy":{"force_default_max_age":true}}}`, `{"proxy":{"cache_policy":{"force_default_max_age":false}}}`,
			`{"proxy":{"cache_policy":{"default_max_age":"1s"}}}`, `{"proxy":{"cache_policy":{"default_max_age":"1h0m0s"}}}`,
			`{"proxy":{"cache_policy":{"ignore_cache_control":false,"force_default_max_age":false}}}`,
		}
		at := 1 + r.IntN(len(reqs)-1)
		op := PReq{Cfg: docs[r.IntN(len(docs))], AtMs: reqs[at].AtMs}
		reqs = append(reqs[:at], append([]PReq{op}, reqs[at:]...)...)
	}
	if retrySwitch {
		// the operator flips the retry switch before the first request
		op := PReq{Cfg: []string{`{"proxy":{"retry_on_range_416":true}}`, `{"proxy":{"retry_on_range_416":false}}`}[r.IntN(2)]}
		reqs = append([]PReq{op}, reqs...)
	}
	p.Res = []PRes{res}
	p.Clients = [][]PReq{reqs}
	return p
}

func sortInt64(a []int64) {
	for i := 1; i < len(a); i++ {
		for j := i; j > 0 && a[j] < a[j-1]; j-- {
			a[j], a[j-1] = a[j-1], a[j]
		}
	}
}

func cloneProxyPlan(p *ProxyPlan) *ProxyPlan {
	q := *p
	q.Res = make([]PRes, len(p.Res))
	for i := range p.Res {
		q.Res[i] = p.Res[i]
		q.Res[i].CC = append([]string{}, p.Res[i].CC...)
		q.Res[i].BumpAtMs = append([]int64{}, p.Res[i].BumpAtMs...)
		q.Res[i].Extra = append([][2]string{}, p.Res[i].Extra...)
	}
	q.Clients = make([][]PReq, len(p.Clients))
	for i := range p.Clients {
		q.Clients[i] = make([]PReq, len(p.Clients[i]))
		for j := range p.Clients[i] {
			q.Clients[i][j] = p.Clients[i][j]
			q.Clients[i][j].Hdr = append([][2]string{}, p.Clients[i][j].Hdr...)
		}
	}
	return &q
}

func shrinkProxyPlan(planAny any) []any {
	p := planAny.(*ProxyPlan)
	var out []any
	for c := range p.Clients {
		if len(p.Clients) > 1 {
			q := cloneProxyPlan(p)
			q.Clients = append(q.Clients[:c], q.Clients[c+1:]...)
			out = append(out, q)
		}
	}
	for c := range p.Clients {
		for i := range p.Clients[c] {
			if len(p.Clients[c]) > 1 {
				q := cloneProxyPlan(p)
				q.Clients[c] = append(q.Clients[c][:i], q.Clients[c][i+1:]...)
				out = append(out, q)
			}
		}
	}
	for c := range p.Clients {
		for i, rq := range p.Clients[c] {
			if len(rq.Hdr) > 0 {
				q := cloneProxyPlan(p)
				q.Clients[c][i].Hdr = nil
				out = append(out, q)
			}
			if rq.ReadChunk != 0 || rq.Disconnect != 0 {
				q := cloneProxyPlan(p)
				q.Clients[c][i].ReadChunk, q.Clients[c][i].Disconnect = 0, 0
				out = append(out, q)
			}
		}
	}
	for i, rs := range p.Res {
		if rs.Size > 10 {
			q := cloneProxyPlan(p)
			q.Res[i].Size = 10
			out = append(out, q)
		}
		if len(rs.BumpAtMs) > 0 {
			q := cloneProxyPlan(p)
			q.Res[i].BumpAtMs = nil
			out = append(out, q)
		}
		if rs.Expires != "" && len(rs.CC) > 0 {
			q := cloneProxyPlan(p)
			q.Res[i].Expires = ""
			out = append(out, q)
			q2 := cloneProxyPlan(p)
			q2.Res[i].CC = nil
			out = append(out, q2)
		}
		if rs.ETag != "" || rs.LastMod {
			q := cloneProxyPlan(p)
			q.Res[i].ETag, q.Res[i].LastMod = "", false
			out = append(out, q)
		}
		if len(rs.Extra) > 0 {
			q := cloneProxyPlan(p)
			q.Res[i].Extra = nil
			out = append(out, q)
		}
		if rs.Chunk != 0 || rs.NoLength {
			q := cloneProxyPlan(p)
			q.Res[i].Chunk, q.Res[i].NoLength = 0, false
			out = append(out, q)
		}
	}
	if p.Transport == "connect" {
		q := cloneProxyPlan(p)
		q.Transport = "plain"
		out = append(out, q)
	}
	if p.Backend == "file" {
		q := cloneProxyPlan(p)
		q.Backend = "memory"
		out = append(out, q)
	}
	if p.IntervalMs < 1000*3600*1000 {
		q := cloneProxyPlan(p)
		q.IntervalMs = 1000 * 3600 * 1000
		out = append(out, q)
	}
	if p.Pol.Mute != "R6,R7" || p.Pol.MapPerm {
		q := cloneProxyPlan(p)
		q.Pol.Mute, q.Pol.MapPerm = "R6,R7", false
		out = append(out, q)
	}
	return out
}

func init() {
	for _, f := range []string{"c03", "c04", "c06"} {
		f := f
		register(&Scenario{
			Name:   "seq-" + f,
			Gen:    func(r *rand.Rand, tier string) any { return genSeqPlan(r, f) },
			Decode: decodeInto[ProxyPlan],
			Run:    runProxyPlan,
			Shrink: shrinkProxyPlan,
		})
	}
	_ = time.Second
}
