package zzharness

// simnet: in-memory duplex connections with bounded buffers, half-close,
// abortive close and deadlines. Blocking is done with sync.Cond, which is
// durably blocking inside a synctest bubble.

import (
	"errors"
	"fmt"
	"io"
	"net"
	"os"
	"runtime"
	"strings"
	"sync"
	"syscall"
	"time"
)

type simAddr string

func (a simAddr) Network() string { return "sim" }
func (a simAddr) String() string  { return string(a) }

type half struct {
	mu       sync.Mutex
	cond     *sync.Cond
	buf      []byte // delivered: what the reader can read
	inflight []byte // written, not yet delivered to the reader
	cap      int
	// Each fact about one end exists twice: as the end that caused it knows it (at once), and as
	// the other end sees it (from the next delivery on).
	wclosed, wclosedVis bool // writer side closed: reader sees EOF after draining
	rclosed, rclosedVis bool // reader side closed: writer sees EPIPE
	reset, resetVis     bool
	total               int64 // bytes ever written
}

func newHalf(capacity int) *half {
	h := &half{cap: capacity}
	h.cond = sync.NewCond(&h.mu)
	simnetReg.mu.Lock()
	simnetReg.halves = append(simnetReg.halves, h)
	simnetReg.mu.Unlock()
	return h
}

// Delivery. Besides the tasks the scheduler releases one at a time, net/http runs goroutines of
// its own (the transport's read and write loops, a server connection between two requests) that
// nobody schedules. If a write were readable the moment it is made, how much such a goroutine
// finds in one Read (and with it how much room the writer has left, whether it blocks, which
// task is eligible next) would depend on real timing. So, while a scheduler drives the world,
// what one end does becomes visible to the other end only at quiescent points: when every
// goroutine of the bubble is durably blocked, the scheduler moves all bytes in flight, and all
// pending close/reset notices, to their readers, wakes them, and waits for quiescence again
// before it releases the next task. Within the capacity of a connection this changes nothing a
// real network could not do (bytes take time to arrive); it makes the unscheduled goroutines'
// inputs a function of the schedule alone.
var simnetReg struct {
	mu        sync.Mutex
	halves    []*half
	quiescent bool
}

// simnetBegin starts a world: connections made from now on deliver at quiescent points (or at
// once, if quiescent is false).
func simnetBegin(quiescent bool) {
	simnetReg.mu.Lock()
	simnetReg.halves = nil
	simnetReg.quiescent = quiescent
	simnetReg.mu.Unlock()
}

// simnetImmediate ends quiescent delivery (teardown: no scheduler drives the world any more).
func simnetImmediate() {
	simnetReg.mu.Lock()
	simnetReg.quiescent = false
	simnetReg.mu.Unlock()
	simnetDeliver()
}

func simnetQuiescent() bool {
	simnetReg.mu.Lock()
	defer simnetReg.mu.Unlock()
	return simnetReg.quiescent
}

// simnetDeliver makes everything in flight visible. Called with every goroutine of the bubble
// blocked, so nothing runs between the first move and the last; the wake-ups come afterwards.
func simnetDeliver() bool {
	simnetReg.mu.Lock()
	hs := simnetReg.halves
	simnetReg.mu.Unlock()
	var changed []*half
	for _, h := range hs {
		h.mu.Lock()
		if h.deliverLocked() {
			changed = append(changed, h)
		}
		h.mu.Unlock()
	}
	for _, h := range changed {
		h.mu.Lock()
		h.cond.Broadcast()
		h.mu.Unlock()
	}
	return len(changed) > 0
}

func (h *half) deliverLocked() bool {
	ch := false
	if len(h.inflight) > 0 {
		h.buf = append(h.buf, h.inflight...)
		h.inflight = nil
		ch = true
	}
	if h.wclosed && !h.wclosedVis {
		h.wclosedVis, ch = true, true
	}
	if h.rclosed && !h.rclosedVis {
		h.rclosedVis, ch = true, true
	}
	if h.reset && !h.resetVis {
		h.resetVis, ch = true, true
		h.buf = nil
	}
	return ch
}

// changedLocked: something was done to h that the other end has to learn about.
func (h *half) changedLocked() {
	if !simnetQuiescent() {
		h.deliverLocked()
	}
	h.cond.Broadcast()
}

// who closed a connection whose own side is then used again (diagnosis of aborted exchanges)
var simnetNotes struct {
	mu sync.Mutex
	l  []string
}

func simnetNote(s string) {
	simnetNotes.mu.Lock()
	if len(simnetNotes.l) < 8 {
		simnetNotes.l = append(simnetNotes.l, s)
	}
	simnetNotes.mu.Unlock()
}

func takeSimnetNotes() []string {
	simnetNotes.mu.Lock()
	defer simnetNotes.mu.Unlock()
	l := simnetNotes.l
	simnetNotes.l = nil
	return l
}

// callers returns a compact stack (function names only) of the caller.
func callers() string {
	pc := make([]uintptr, 24)
	n := runtime.Callers(3, pc)
	fr := runtime.CallersFrames(pc[:n])
	var out []string
	for {
		f, more := fr.Next()
		out = append(out, f.Function)
		if !more {
			break
		}
	}
	return strings.Join(out, " < ")
}

type simConn struct {
	rd, wr        *half
	local, remote simAddr
	mu            sync.Mutex
	closed        bool
	closedBy      string
	rdl, wdl      time.Time
	rdlT, wdlT    *time.Timer
}

func newConnPair(capacity int, a, b string) (*simConn, *simConn) {
	ab := newHalf(capacity)
	ba := newHalf(capacity)
	ca := &simConn{rd: ba, wr: ab, local: simAddr(a), remote: simAddr(b)}
	cb := &simConn{rd: ab, wr: ba, local: simAddr(b), remote: simAddr(a)}
	return ca, cb
}

func (c *simConn) isClosed() bool {
	c.mu.Lock()
	defer c.mu.Unlock()
	return c.closed
}

func (c *simConn) deadline(read bool) time.Time {
	c.mu.Lock()
	defer c.mu.Unlock()
	if read {
		return c.rdl
	}
	return c.wdl
}

func (c *simConn) closedUse(op string) {
	c.mu.Lock()
	by := c.closedBy
	c.mu.Unlock()
	simnetNote(fmt.Sprintf("%s on %s->%s after its own Close by [%s]; %s called from [%s]", op, c.local, c.remote, by, op, callers()))
}

func (c *simConn) Read(p []byte) (int, error) {
	h := c.rd
	h.mu.Lock()
	defer h.mu.Unlock()
	for {
		if c.isClosed() {
			c.closedUse("Read")
			return 0, net.ErrClosed
		}
		if h.resetVis {
			return 0, &net.OpError{Op: "read", Net: "sim", Err: syscall.ECONNRESET}
		}
		if len(h.buf) > 0 {
			n := copy(p, h.buf)
			h.buf = h.buf[n:]
			if len(h.buf) == 0 {
				h.buf = nil
			}
			h.cond.Broadcast()
			return n, nil
		}
		if h.wclosedVis {
			return 0, io.EOF
		}
		if d := c.deadline(true); !d.IsZero() && !time.Now().Before(d) {
			return 0, os.ErrDeadlineExceeded
		}
		if len(p) == 0 {
			return 0, nil
		}
		h.cond.Wait()
	}
}

func (c *simConn) Write(p []byte) (int, error) {
	h := c.wr
	h.mu.Lock()
	defer h.mu.Unlock()
	written := 0
	for {
		if len(p) == 0 && written > 0 {
			// everything is in the buffer: the write has succeeded, whatever the peer does from now
			// on (a peer that reads the last byte, answers and closes may do all that before this
			// goroutine gets to look at the flags again)
			return written, nil
		}
		if c.isClosed() {
			c.closedUse("Write")
			return written, net.ErrClosed
		}
		if h.resetVis {
			simnetNote(fmt.Sprintf("Write on %s->%s: reset after %d of %d bytes; called from [%s]", c.local, c.remote, written, written+len(p), callers()))
			return written, &net.OpError{Op: "write", Net: "sim", Err: syscall.ECONNRESET}
		}
		if h.rclosedVis {
			simnetNote(fmt.Sprintf("Write on %s->%s: peer closed after %d of %d bytes; called from [%s]", c.local, c.remote, written, written+len(p), callers()))
			return written, &net.OpError{Op: "write", Net: "sim", Err: syscall.EPIPE}
		}
		if h.wclosed {
			simnetNote(fmt.Sprintf("Write on %s->%s after CloseWrite; called from [%s]", c.local, c.remote, callers()))
			return written, &net.OpError{Op: "write", Net: "sim", Err: errors.New("write after CloseWrite")}
		}
		if len(p) == 0 {
			return written, nil
		}
		if d := c.deadline(false); !d.IsZero() && !time.Now().Before(d) {
			return written, os.ErrDeadlineExceeded
		}
		space := h.cap - len(h.buf) - len(h.inflight)
		if space > 0 {
			n := min(space, len(p))
			h.inflight = append(h.inflight, p[:n]...)
			h.total += int64(n)
			p = p[n:]
			written += n
			h.changedLocked()
			continue
		}
		h.cond.Wait()
	}
}

// Close closes both directions gracefully (FIN): the peer reads EOF after the
// buffered data; the peer's writes fail.
func (c *simConn) Close() error {
	c.mu.Lock()
	if c.closed {
		c.mu.Unlock()
		return nil
	}
	c.closed = true
	c.closedBy = callers()
	if c.rdlT != nil {
		c.rdlT.Stop()
	}
	if c.wdlT != nil {
		c.wdlT.Stop()
	}
	c.mu.Unlock()
	c.wr.mu.Lock()
	c.wr.wclosed = true
	c.wr.changedLocked()
	c.wr.mu.Unlock()
	c.rd.mu.Lock()
	c.rd.rclosed = true
	c.rd.buf = nil
	c.rd.inflight = nil
	c.rd.changedLocked()
	c.rd.mu.Unlock()
	return nil
}

// CloseWrite half-closes: the peer reads EOF, this side can still read.
func (c *simConn) CloseWrite() error {
	c.wr.mu.Lock()
	c.wr.wclosed = true
	c.wr.changedLocked()
	c.wr.mu.Unlock()
	return nil
}

// Abort is an abortive close (RST): buffered data is dropped, both directions fail.
func (c *simConn) Abort() {
	for _, h := range []*half{c.rd, c.wr} {
		h.mu.Lock()
		h.reset = true
		h.inflight = nil
		h.changedLocked()
		h.mu.Unlock()
	}
	c.mu.Lock()
	c.closed = true
	c.mu.Unlock()
}

func (c *simConn) LocalAddr() net.Addr  { return c.local }
func (c *simConn) RemoteAddr() net.Addr { return c.remote }

func (c *simConn) SetDeadline(t time.Time) error {
	c.SetReadDeadline(t)
	c.SetWriteDeadline(t)
	return nil
}

func (c *simConn) SetReadDeadline(t time.Time) error {
	c.mu.Lock()
	c.rdl = t
	if c.rdlT != nil {
		c.rdlT.Stop()
		c.rdlT = nil
	}
	if !t.IsZero() && !c.closed {
		d := time.Until(t)
		if d <= 0 {
			c.mu.Unlock()
			c.rd.mu.Lock()
			c.rd.cond.Broadcast()
			c.rd.mu.Unlock()
			return nil
		}
		h := c.rd
		c.rdlT = time.AfterFunc(d, func() {
			h.mu.Lock()
			h.cond.Broadcast()
			h.mu.Unlock()
		})
	}
	c.mu.Unlock()
	return nil
}

func (c *simConn) SetWriteDeadline(t time.Time) error {
	c.mu.Lock()
	c.wdl = t
	if c.wdlT != nil {
		c.wdlT.Stop()
		c.wdlT = nil
	}
	if !t.IsZero() && !c.closed {
		d := time.Until(t)
		if d <= 0 {
			c.mu.Unlock()
			c.wr.mu.Lock()
			c.wr.cond.Broadcast()
			c.wr.mu.Unlock()
			return nil
		}
		h := c.wr
		c.wdlT = time.AfterFunc(d, func() {
			h.mu.Lock()
			h.cond.Broadcast()
			h.mu.Unlock()
		})
	}
	c.mu.Unlock()
	return nil
}

// BytesReceived returns how many bytes the peer has written towards this side.
func (c *simConn) BytesReceived() int64 {
	c.rd.mu.Lock()
	defer c.rd.mu.Unlock()
	return c.rd.total
}

type simListener struct {
	name   string
	ch     chan *simConn
	mu     sync.Mutex
	closed bool
	done   chan struct{}
	conns  []*simConn
}

func newListener(name string) *simListener {
	return &simListener{name: name, ch: make(chan *simConn, 64), done: make(chan struct{})}
}

func (l *simListener) Accept() (net.Conn, error) {
	select {
	case c := <-l.ch:
		return c, nil
	case <-l.done:
		return nil, net.ErrClosed
	}
}

func (l *simListener) Close() error {
	l.mu.Lock()
	defer l.mu.Unlock()
	if !l.closed {
		l.closed = true
		close(l.done)
	}
	return nil
}

func (l *simListener) Addr() net.Addr { return simAddr(l.name) }

// Dial connects to the listener; from names the dialing side (it becomes the
// RemoteAddr the server sees).
func (l *simListener) Dial(from string, capacity int) (*simConn, error) {
	l.mu.Lock()
	if l.closed {
		l.mu.Unlock()
		return nil, &net.OpError{Op: "dial", Net: "sim", Err: syscall.ECONNREFUSED}
	}
	cl, sv := newConnPair(capacity, from, l.name)
	l.conns = append(l.conns, cl, sv)
	l.mu.Unlock()
	select {
	case l.ch <- sv:
		return cl, nil
	default:
		return nil, fmt.Errorf("simnet: accept queue of %s full", l.name)
	}
}

// CloseAll tears down every connection ever made through this listener.
func (l *simListener) CloseAll() {
	l.mu.Lock()
	cs := append([]*simConn{}, l.conns...)
	l.mu.Unlock()
	for _, c := range cs {
		c.Abort()
	}
}
