package zzharness

// C16: no input panics or leaves a request unanswered.
//   raw:     literal request bytes / hostile origin header sets through the running proxy
//   parsers: bounded-exhaustive enumeration of the small grammars (byte-size, PHC, config
//            documents) through the code that reads them from disk or the API

import (
	"encoding/json"
	"fmt"
	"math/rand/v2"
	"os"
	"path/filepath"
	"regexp"
	"runtime/debug"
	"strconv"
	"strings"
	"testing"

	"reservoir/config"
	"reservoir/utils/bytesize"
	"reservoir/utils/phc"
)

var rawRequestLines = []string{
	"GET http://origin.test/x HTTP/1.1", "GET /x HTTP/1.1", "GET origin.test:80 HTTP/1.1", "GET http://origin.test:99999/x HTTP/1.1",
	"GET http:///x HTTP/1.1", "GET http://[::1/x HTTP/1.1", "GET http://origin.test/%zz HTTP/1.1", "GET http://origin.test/x HTTP/1.0",
	"GET http://origin.test/x HTTP/2.0", "FOO http://origin.test/x HTTP/1.1", "get http://origin.test/x HTTP/1.1", "GET  http://origin.test/x HTTP/1.1",
	"GET http://origin.test/a b HTTP/1.1", "OPTIONS * HTTP/1.1", "GET http://ORIGIN.test:80/x?%41=%zz HTTP/1.1", "GET http://origin.test HTTP/1.1",
	"GET http://origin.test/../../etc/passwd HTTP/1.1", "GET http://origin.test/x#frag HTTP/1.1", "GET http://user:pw@origin.test/x HTTP/1.1",
	"GET http://origin.test:/x HTTP/1.1", "GET http://down.test/x HTTP/1.1", "GET ftp://origin.test/x HTTP/1.1", "GET //origin.test/x HTTP/1.1",
	"HEAD http://origin.test/x HTTP/1.1", "POST http://origin.test/x HTTP/1.1", "DELETE http://origin.test/x HTTP/1.1", "TRACE http://origin.test/x HTTP/1.1",
	"CONNECT origin.test HTTP/1.1", "CONNECT :443 HTTP/1.1", "CONNECT [::1]:443 HTTP/1.1", "CONNECT origin.test:99999 HTTP/1.1",
	"CONNECT http://origin.test/ HTTP/1.1", "CONNECT origin.test:443 HTTP/1.0", "CONNECT  HTTP/1.1", "CONNECT origin.test:443:443 HTTP/1.1", "CONNECT [::1 HTTP/1.1",
	"GET http://origin.test/" + strings.Repeat("a", 9000) + " HTTP/1.1", "\x00\x01\x02 garbage", "", "GET", "GET http://origin.test/x",
}

var rawHostHeaders = []string{"Host: origin.test", "", "Host: ", "Host: other.test", "Host: origin.test:80", "Host: ORIGIN.TEST", "Host: [::1]", "Host: a b", "Host: origin.test\r\nHost: second.test", "host: origin.test"}

var rawExtraHeaders = []string{
	"", "Range: bytes=", "Range: bytes=5", "Range: bytes=0-0,1-1", "Range: bytes=-18446744073709551616", "Range: \x01", "Range: bytes=0-4\r\nRange: bytes=5-9",
	"If-Range: ", "If-Range: \"", "If-Range: W/", "If-Range: Mon, 99 Foo 2000 99:99:99 GMT", "If-Modified-Since: garbage", "If-None-Match: *", "If-Match: \"x\"",
	"Cache-Control: max-age=99999999999999999999", "Cache-Control: =", "Cache-Control: ,,,,", "Cache-Control: max-age=\"", "Cache-Control: no-cache=\"set-cookie",
	// quoted-strings and backslashes in every relation to each other
	"Cache-Control: max-age=60, ext=\"a\", b\\c", "Cache-Control: \\\"", "Cache-Control: x=\"y\\", "Cache-Control: \\", "Cache-Control: a=\"\\\"\", \\b, c=\"d", "Cache-Control: \"\\",
	"Content-Length: 0", "Content-Length: -1", "Content-Length: 0\r\nContent-Length: 0", "Transfer-Encoding: chunked", "Transfer-Encoding: gzip",
	"X-Long: " + strings.Repeat("v", 8000), "X-Empty:", "NoColonHeader", ": empty-name", "X-Fold: a\r\n b", "Connection: close", "Connection: Host",
	"Connection: keep-alive, Range, If-Range", "Upgrade: websocket\r\nConnection: upgrade", "Accept-Encoding: gzip, br", "Proxy-Authorization: Basic !!!!", "Via: 1.1 x",
	"Range: bytes=0-0\r\nIf-Range: \"r0-v1\"", "Range: bytes=0-99999999\r\nIf-Range: Sat, 01 Jan 2000 00:00:00 GMT", "Pragma: no-cache", "Max-Forwards: 0",
}

// hostile origin responses (raw bytes after the status line is chosen by the plan)
var hostileResponses = []string{
	"HTTP/1.1 200 OK\r\nContent-Length: 99999999999999999999\r\n\r\nabc",
	"HTTP/1.1 200 OK\r\nContent-Length: 3\r\nContent-Length: 5\r\n\r\nabcde",
	"HTTP/1.1 200 OK\r\nContent-Length: -5\r\n\r\nabc",
	"HTTP/1.1 200 OK\r\nContent-Length: 3\r\nDate: garbage\r\nExpires: 99\r\nLast-Modified: never\r\nAge: -1\r\n\r\nabc",
	"HTTP/1.1 200 OK\r\nContent-Length: 3\r\nETag: \r\nCache-Control: max-age=99999999999999999999\r\n\r\nabc",
	"HTTP/1.1 200 OK\r\nContent-Length: 3\r\nETag: " + strings.Repeat("e", 5000) + "\r\nCache-Control: max-age=60\r\n\r\nabc",
	"HTTP/1.1 200 OK\r\nContent-Length: 3\r\nCache-Control: max-age=60\r\nLast-Modified: Sat, 99 Jan 2000 00:00:00 GMT\r\nAge: abc\r\n\r\nabc",
	"HTTP/1.1 200\r\nContent-Length: 3\r\n\r\nabc",
	"HTTP/1.1 999 Weird\r\nContent-Length: 3\r\n\r\nabc",
	"HTTP/1.1 200 OK\r\n\r\n",
	"HTTP/1.1 200 OK\r\nTransfer-Encoding: chunked\r\n\r\n3\r\nabc\r\nZZ\r\n",
	"HTTP/1.1 200 OK\r\nTransfer-Encoding: chunked\r\nContent-Length: 3\r\n\r\n3\r\nabc\r\n0\r\n\r\n",
	"HTTP/1.1 304 Not Modified\r\nContent-Length: 3\r\n\r\n",
	"HTTP/1.1 206 Partial Content\r\nContent-Range: bytes 5-1/3\r\nContent-Length: 3\r\n\r\nabc",
	"HTTP/1.1 416 Range Not Satisfiable\r\nContent-Range: garbage\r\nContent-Length: 0\r\n\r\n",
	"HTTP/1.1 200 OK\r\nContent-Length: 3\r\nBad Header Line\r\n\r\nabc",
	"HTTP/1.1 200 OK\r\nContent-Length: 3\r\nCache-Control: max-age=60\r\nContent-Range: bytes 0-2/3\r\nVary: *\r\n\r\nabc",
	"garbage that is not http\r\n\r\n",
	"",
	"HTTP/1.1 200 OK\r\nContent-Length: 10\r\nCache-Control: max-age=60\r\n\r\nabc",
	"HTTP/1.1 200 OK\r\nContent-Length: 0\r\nCache-Control: max-age=60\r\nETag: \"e\"\r\n\r\n",
	"HTTP/1.1 204 No Content\r\nCache-Control: max-age=60\r\n\r\n",
	"HTTP/1.1 200 OK\r\nContent-Length: 3\r\nCache-Control: max-age=60, ext=\"a\", b\\c\r\n\r\nabc",
	"HTTP/1.1 200 OK\r\nContent-Length: 3\r\nCache-Control: x=\"y\\\r\n\r\nabc",
	"HTTP/1.1 099 Low\r\nContent-Length: 3\r\n\r\nabc",
	"HTTP/1.1 000 Zero\r\nContent-Length: 0\r\n\r\n",
	"HTTP/1.1 101 Switching Protocols\r\nUpgrade: x\r\nConnection: Upgrade\r\n\r\n",
	"HTTP/1.1 101 Switching Protocols\r\n\r\nxyz-bytes-of-a-protocol-nobody-asked-for",
	"HTTP/1.1 101 Switching Protocols\r\nContent-Length: 3\r\n\r\nabc",
	"HTTP/1.1 100 Continue\r\n\r\nHTTP/1.1 200 OK\r\nContent-Length: 3\r\n\r\nabc",
	"HTTP/1.1 1000 Big\r\nContent-Length: 3\r\n\r\nabc",
	"HTTP/1.1 -1 Neg\r\nContent-Length: 3\r\n\r\nabc",
	"HTTP/1.1 200 OK\r\nContent-Length: 3\r\nCache-Control: max-age=60\r\nExpires: 0\r\nDate: Sat, 01 Jan 2000 00:00:00 GMT\r\nX-" + strings.Repeat("h", 3000) + ": v\r\n\r\nabc",
}

func genRawPlan(r *rand.Rand) *ProxyPlan {
	idx := int(currentSeed & 0xffffffff)
	p := &ProxyPlan{Family: "raw"}
	p.Backend = []string{"memory", "file"}[idx%2]
	p.Shards = 4
	p.MaxSize = 1 << 40
	p.IntervalMs = 1000 * 3600 * 1000
	p.Transport = "plain"
	if idx%3 == 0 {
		p.Transport = "connect" // the raw bytes go through an established tunnel
	}
	p.DefaultAgeS = 60
	p.RetryRange = (idx/6)%2 == 0
	p.Retry416 = (idx/12)%2 == 0
	p.Pol = seqPolicy()
	rs := PRes{Host: "*", Path: "/", Wild: true, Size: 40, CC: []string{"max-age=60"}, ETag: "strong", LastMod: true}
	p.Res = []PRes{rs}
	hostile := r.IntN(3) == 0
	if hostile {
		p.Res[0].Extra = [][2]string{{"X-Sim-Raw", itoa(r.IntN(len(hostileResponses)))}}
		if r.IntN(4) == 0 {
			// a proper 416 (with a body) for Range requests, hostile bytes for the retry without Range
			p.Res[0].Extra[0][0] = "X-Sim-Raw-NoRange"
			p.Res[0].RangeMode = "416"
			p.Retry416 = true
		} else if r.IntN(3) == 0 {
			// a storable answer to plain requests, hostile bytes for Range requests only
			p.Res[0].Extra[0][0] = "X-Sim-Raw-Range"
		}
	}
	var reqs []PReq
	for k := 0; k < 6; k++ {
		line := rawRequestLines[(idx*6+k*7)%len(rawRequestLines)]
		if hostile {
			line = []string{"GET http://origin.test/h HTTP/1.1", "GET http://origin.test/h HTTP/1.1", "HEAD http://origin.test/h HTTP/1.1"}[r.IntN(3)]
		}
		if p.Transport == "connect" {
			// inside a tunnel the target is origin-form
			if strings.HasPrefix(line, "CONNECT") {
				continue
			}
			line = strings.Replace(line, "http://origin.test", "", 1)
		}
		host := rawHostHeaders[r.IntN(len(rawHostHeaders))]
		if r.IntN(2) == 0 {
			host = rawHostHeaders[0]
		}
		extra := rawExtraHeaders[r.IntN(len(rawExtraHeaders))]
		if hostile && r.IntN(2) == 0 {
			extra = []string{"", "Range: bytes=0-1", "If-Range: \"x\"\r\nRange: bytes=1-"}[r.IntN(3)]
		}
		var b strings.Builder
		b.WriteString(line + "\r\n")
		if host != "" {
			b.WriteString(host + "\r\n")
		}
		if extra != "" {
			b.WriteString(extra + "\r\n")
		}
		bodyLen := 0
		if strings.HasPrefix(line, "POST") && !strings.Contains(extra, "Content-Length") && !strings.Contains(extra, "Transfer-Encoding") {
			b.WriteString("Content-Length: 5\r\n")
			bodyLen = 5
		}
		b.WriteString("\r\n")
		if strings.Contains(extra, "Transfer-Encoding: chunked") {
			b.WriteString("3\r\nabc\r\n0\r\n\r\n")
		} else if bodyLen > 0 {
			b.WriteString("hello")
		}
		reqs = append(reqs, PReq{Res: 0, Raw: b.String()})
		if hostile {
			reqs = append(reqs, PReq{Res: 0, Raw: b.String()}) // again: whatever was stored is now served
		}
	}
	p.Clients = [][]PReq{reqs}
	if r.IntN(6) == 0 {
		// a cache that can hold nothing (memory budget 0 %: a valid configuration), one byte, or a
		// single representation: every store meets the full-cache path
		switch k := r.IntN(3); {
		case k == 0 && p.Backend == "memory":
			p.MemBudget0 = true
		case k == 1:
			p.MaxSize = 1
		default:
			p.MaxSize = 50
		}
	}
	return p
}

func judgeRaw(w *proxyWorld, res *Result) {
	pd := planDesc(w.p)
	for _, ex := range w.exch {
		if !ex.Sent {
			if ex.TunnelFail != "" {
				res.violate("C16.a", "tunnel-setup-failed", "%s [%s]", ex.TunnelFail, pd)
			}
			continue
		}
		res.Evals++
		first := ex.Req.Raw
		if i := strings.Index(first, "\r\n"); i >= 0 {
			first = first[:i]
		}
		if len(first) > 80 {
			first = first[:80] + "..."
		}
		hdrs := ""
		if parts := strings.SplitN(ex.Req.Raw, "\r\n", 4); len(parts) >= 3 {
			hdrs = strings.Join(parts[1:len(parts)-1], " | ")
			if len(hdrs) > 120 {
				hdrs = hdrs[:120] + "..."
			}
		}
		if strings.HasPrefix(ex.Req.Raw, "CONNECT") && ex.Complete && ex.Status == 200 {
			continue // tunnel accepted; nothing more is sent on it here
		}
		hostileIdx := -1
		for _, o := range w.contacts(ex) {
			if o.Status == -1 {
				for i, h := range hostileResponses {
					if string(o.RespBody) == h {
						hostileIdx = i
					}
				}
			}
		}
		if !ex.Complete && hostileIdx >= 0 && hostileTruncated[hostileIdx] {
			// the origin itself broke off mid-body: an aborted client connection is the faithful outcome
			res.Probes["origin_truncated_body_relayed_as_abort"]++
			continue
		}
		if ex.Complete && ex.Status >= 100 && ex.Status < 200 {
			// An informational status as the last thing the client gets (a relayed "101 Switching
			// Protocols" nobody asked for): well-formed, and no answer to the request - the client goes
			// on waiting for a final response, or for a protocol it never asked to switch to.
			cls := rawClass(ex.Req.Raw, w.p.Transport)
			if hostileIdx >= 0 {
				cls += fmt.Sprintf(",hostile-origin-response-%d", hostileIdx)
			}
			res.violate("C16.a", "unanswered (informational status as the final answer): "+cls, "request %q [%s] was answered with status %d and nothing after it [%s]", first, hdrs, ex.Status, pd)
		}
		if !ex.Complete {
			cls := rawClass(ex.Req.Raw, w.p.Transport)
			if hostileIdx >= 0 {
				cls += fmt.Sprintf(",hostile-origin-response-%d", hostileIdx)
			}
			res.violate("C16.a", "unanswered: "+cls, "request %q [%s] got no well-formed response: %s (status %d) [%s]", first, hdrs, ex.Err, ex.Status, pd)
		}
	}
	res.Nontrivial = true
}

// hostile responses whose body is shorter than (or not framed as) the head declares
// hostile responses after which the origin keeps its connection open (a protocol switch nobody asked
// for: the bytes after the 101 head belong to "the other protocol" and the origin goes on waiting)
var hostileKeepsOpen = map[int]bool{27: true}

var hostileTruncated = map[int]bool{0: true, 1: true, 10: true, 19: true}

func rawClass(raw, transport string) string {
	line := raw
	if i := strings.Index(line, "\r\n"); i >= 0 {
		line = line[:i]
	}
	var c []string
	c = append(c, transport)
	switch {
	case strings.HasPrefix(line, "CONNECT"):
		c = append(c, "CONNECT")
	case strings.Contains(line, "%zz"):
		c = append(c, "bad-percent-escape")
	case len(line) > 8000:
		c = append(c, "long-target")
	case line == "" || !strings.Contains(line, " HTTP/"):
		c = append(c, "malformed-request-line")
	default:
		c = append(c, "request")
	}
	for _, h := range []string{"Content-Length: -1", "Transfer-Encoding: gzip", "Host: a b", "NoColonHeader", ": empty-name", "X-Fold", "Range: \x01"} {
		if strings.Contains(raw, "\r\n"+h) {
			c = append(c, "malformed-header")
			break
		}
	}
	if strings.Contains(raw, " HTTP/1.0") {
		c = append(c, "http/1.0")
	}
	if strings.Contains(raw, " HTTP/2.0") {
		c = append(c, "http/2.0")
	}
	return strings.Join(c, ",")
}

// ---------------------------------------------------------------------------
// parsers

type ParserPlan struct {
	Kind  string   `json:"kind"`
	Items []string `json:"items"`
}

var sizeAlphabet = []byte("0123456789BKMGTx ")

func enumString(alpha []byte, i int) string {
	n, l, cnt := i, 0, 1
	for n >= cnt {
		n -= cnt
		cnt *= len(alpha)
		l++
	}
	b := make([]byte, l)
	for k := l - 1; k >= 0; k-- {
		b[k] = alpha[n%len(alpha)]
		n /= len(alpha)
	}
	return string(b)
}

const validPHC = "$argon2id$v=19$m=64,t=1,p=1$c29tZXNhbHRzb21lc2FsdA$RdescudvJCsgt3ub+b+dWRWJTmaaJObG"

var phcMemRe = regexp.MustCompile(`\$m=(\d+),`)
var phcTimeRe = regexp.MustCompile(`,t=(\d+),`)

func trunc(s string, n int) string {
	if len(s) > n {
		return s[:n] + "..."
	}
	return s
}

func phcMutations(r *rand.Rand, n int) []string {
	parts := strings.Split(strings.TrimPrefix(validPHC, "$"), "$")
	subs := [][]string{
		{"argon2id", "argon2i", "", "ARGON2ID", "bcrypt"},
		{"v=19", "v=", "v=x", "19", "v=99999999999999999999", "v=-1"},
		{"m=64,t=1,p=1", "m=64,t=1,p=1,l=24", "m=64,t=1,p=1,l=23", "m=0,t=1,p=1", "m=64,t=1,p=0", "m=64,t=1,p=256", "m=,t=,p=", "", "m=64", "m=64,t=1,p=1,x", "m=64,,t=1,,p=1", "m=4294967296,t=1,p=1", "m=-1,t=1,p=1", "m=64,t=1,p=1,l=4294967295", "m=4294967295,t=1,p=1", "m=2147483648,t=1,p=2", "m=1073741824,t=1,p=1", "m=64,t=4294967295,p=1", "m=64,t=2147483648,p=1", "m=8,t=1073741824,p=1"},
		{"c29tZXNhbHRzb21lc2FsdA", "", "c29tZXNhbHQ", "c29tZXNhbHRzb21lc2FsdHNvbWVzYWx0c29tZXNhbHQ", "!!!!", "c29tZXNhbHRzb21lc2FsdA==", "c29tZXNhbHRzb21lc2FsdAA", strings.Repeat("A", 4000)},
		{"RdescudvJCsgt3ub+b+dWRWJTmaaJObG", "", "!!", "RdescudvJCsgt3ub", strings.Repeat("B", 4000), "RdescudvJCsgt3ub+b+dWRWJTmaaJObG=="},
	}
	var out []string
	for i := 0; i < n; i++ {
		ps := append([]string{}, parts...)
		for k := 0; k < 1+r.IntN(2); k++ {
			f := r.IntN(5)
			ps[f] = subs[f][r.IntN(len(subs[f]))]
		}
		s := "$" + strings.Join(ps, "$")
		switch r.IntN(8) {
		case 0:
			s = strings.TrimPrefix(s, "$")
		case 1:
			s += "$extra"
		case 2:
			s = strings.Replace(s, "$", "$$", 1)
		case 3:
			s = " " + s + "\n"
		}
		out = append(out, s)
	}
	return out
}

var configDocs = []string{
	`{"cache":{"max_cache_size":"%s"}}`, `{"logging":{"max_size":"%s"}}`, `{"cache":{"cleanup_interval":"%s"}}`, `{"proxy":{"cache_policy":{"default_max_age":"%s"}}}`,
	`{"cache":{"lock_shards":%s}}`, `{"cache":{"memory":{"memory_budget_percent":%s}}}`, `{"logging":{"level":"%s"}}`, `{"cache":{"type":"%s"}}`,
	`{"cache":%s}`, `{"proxy":%s}`, `%s`, `{"cache":{"file":{"dir":%s}}}`, `{"logging":{"max_backups":%s}}`,
	`{"proxy":{"listen":%s}}`, `{"cache":{"lock_shards":%s}}`, `{"logging":{"level":%s}}`, `{"":%s}`, `{"cache":{"":%s}}`,
}
var configVals = []string{`{"":1}`, `{"":{"":1}}`, `{"value":1}`, `{"Value":1}`, "", "0", "-1", "1", "10G", "1.5G", "abc", "99999999999999999999", "9223372036854775807B", "9007199254740993T", "1h", "-1h", "0s", "1e3s", "null", "true", "[]", "{}", `"x"`, "1.5", "DEBUG", "debug", "INFO+2", "file", "memory", "disk", "1ns", "2562048h", "99999999999h"}

func genParserPlan(r *rand.Rand, tier string) *ParserPlan {
	idx := int(currentSeed & 0xffffffff)
	kinds := []string{"bytesize", "phc", "configdoc", "configfile"}
	// idx modulo small numbers correlates with the scenario rotation of the batch: use higher bits
	p := &ParserPlan{Kind: kinds[(idx/4)%len(kinds)]}
	block := idx / 16
	switch p.Kind {
	case "bytesize":
		// strings of length 0..4 over the alphabet: 1+17+289+4913+83521 = 88741
		const total = 88741
		per := 400
		for k := 0; k < per; k++ {
			p.Items = append(p.Items, enumString(sizeAlphabet, (block*per+k)%total))
		}
		p.Items = append(p.Items, "9223372036854775807", "9223372036854775808", "18446744073709551616B", "8796093022208M", "9007199254740993K", "99999999999999999999T", "1KB", "1k", "１K", "1\x00K")
	case "phc":
		p.Items = phcMutations(r, 200)
	case "configdoc", "configfile":
		for k := 0; k < 40; k++ {
			doc := configDocs[r.IntN(len(configDocs))]
			val := configVals[r.IntN(len(configVals))]
			p.Items = append(p.Items, strings.Replace(doc, "%s", val, 1))
		}
	}
	return p
}

func runParserPlan(t *testing.T, planAny any, ctl Ctl) *Result {
	p := planAny.(*ParserPlan)
	res := newResult()
	res.Evals = 0
	dir := newRunDir()
	os.Chdir(dir)
	os.MkdirAll(filepath.Join(dir, "var"), 0o755)
	defer os.RemoveAll(dir)
	try := func(what, item string, f func()) {
		res.Evals++
		defer func() {
			if r := recover(); r != nil {
				st := string(debug.Stack())
				where := ""
				for _, l := range strings.Split(st, "\n") {
					if strings.Contains(l, "reservoir/") && !strings.Contains(l, "zzharness") && strings.Contains(l, ".go:") {
						where = strings.TrimSpace(l)
						if i := strings.Index(where, "reservoir/"); i >= 0 {
							where = where[i:]
						}
						if i := strings.IndexByte(where, ' '); i >= 0 {
							where = where[:i]
						}
						break
					}
				}
				it := item
				if len(it) > 100 {
					it = it[:100] + "..."
				}
				res.violate("C16.b", "panic in "+what+" at "+where, "%s(%q) panicked: %v", what, it, r)
			}
		}()
		f()
	}
	for _, it := range p.Items {
		it := it
		switch p.Kind {
		case "bytesize":
			try("bytesize.Parse", it, func() {
				v, err := bytesize.Parse(it)
				if err == nil {
					_ = v.String()
					b, _ := json.Marshal(v)
					var back bytesize.ByteSize
					_ = json.Unmarshal(b, &back)
				}
			})
		case "phc":
			try("phc.ParsePHC", it, func() {
				h, err := phc.ParsePHC(it)
				if err == nil && h != nil {
					_ = h.String()
					var s phc.PHC
					_ = s.Scan(it)
					_ = s.Scan([]byte(it))
					if strings.Contains(it, "m=64,t=1,p=1") {
						_ = h.VerifyArgon2id("password")
					}
					// verifying against this hash allocates m KiB: a terabyte or more is a process abort
					// ("fatal error: out of memory" cannot be recovered), so such a string must be refused
					if m := phcMemRe.FindStringSubmatch(h.String()); m != nil {
						if kib, _ := strconv.ParseUint(m[1], 10, 64); kib >= 1<<30 {
							res.violate("C16.b", "phc-accepted-with-memory-parameter-that-aborts-the-process", "ParsePHC accepted %q: verifying a password against it allocates %d KiB", trunc(it, 120), kib)
						}
					}
					// ... and makes t passes over it: a billion passes and more never end, the login that
					// needs the verdict is never answered
					if m := phcTimeRe.FindStringSubmatch(h.String()); m != nil {
						if t, _ := strconv.ParseUint(m[1], 10, 64); t >= 1<<30 {
							res.violate("C16.a", "phc-accepted-with-time-parameter-that-never-ends", "ParsePHC accepted %q: verifying a password against it makes %d passes", trunc(it, 120), t)
						}
					}
				}
			})
		case "configdoc":
			try("config.UpdatePartialFromConfig", it, func() {
				var m map[string]any
				if json.Unmarshal([]byte(it), &m) != nil {
					return
				}
				cfg := config.NewDefault()
				_, _ = config.UpdatePartialFromConfig(cfg, m)
			})
		case "configfile":
			try("config.LoadOrDefault", it, func() {
				// a complete file: defaults with one value replaced, and the bare document itself
				cfg := config.NewDefault()
				b, _ := json.Marshal(cfg)
				var full map[string]any
				json.Unmarshal(b, &full)
				var patch map[string]any
				if json.Unmarshal([]byte(it), &patch) == nil {
					mergeMaps(full, patch)
				}
				fb, _ := json.Marshal(full)
				path := filepath.Join(dir, "var", "config.json")
				os.WriteFile(path, fb, 0o644)
				_, _ = config.LoadOrDefault(path)
				os.WriteFile(path, []byte(it), 0o644)
				_, _ = config.LoadOrDefault(path)
			})
		}
	}
	res.Probes["parser_inputs_"+p.Kind] += len(p.Items)
	res.Nontrivial = true
	res.Trace = hashBytes([]byte(fmt.Sprint(p.Kind, len(p.Items), p.Items[0])))
	return res
}

func mergeMaps(dst, src map[string]any) {
	for k, v := range src {
		if sm, ok := v.(map[string]any); ok {
			if dm, ok := dst[k].(map[string]any); ok {
				mergeMaps(dm, sm)
				continue
			}
		}
		dst[k] = v
	}
}

func init() {
	register(&Scenario{Name: "raw", Gen: func(r *rand.Rand, tier string) any { return genRawPlan(r) }, Decode: decodeInto[ProxyPlan], Run: runProxyPlan, Shrink: shrinkProxyPlan})
	register(&Scenario{Name: "parsers", Gen: func(r *rand.Rand, tier string) any { return genParserPlan(r, tier) }, Decode: decodeInto[ParserPlan], Run: runParserPlan,
		Shrink: func(planAny any) []any {
			p := planAny.(*ParserPlan)
			var out []any
			if len(p.Items) > 1 {
				h := len(p.Items) / 2
				out = append(out, &ParserPlan{Kind: p.Kind, Items: p.Items[:h]}, &ParserPlan{Kind: p.Kind, Items: p.Items[h:]})
			}
			return out
		}})
}
