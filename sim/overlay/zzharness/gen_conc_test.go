package zzharness

// Generators for the concurrent families: coalescing (C05), cache-side
// trouble (C09) and proxy-level body integrity under concurrency (C01).

import (
	"math/rand/v2"
	"time"
)

func genCoalPlan(r *rand.Rand, faults bool) *ProxyPlan {
	p := &ProxyPlan{Family: "coal"}
	p.Backend = []string{"memory", "file"}[r.IntN(2)]
	p.Shards = []int{1, 2, 16}[r.IntN(3)]
	p.MaxSize = 1 << 40
	p.IntervalMs = 1000 * 3600 * 1000
	p.Transport = []string{"plain", "plain", "connect"}[r.IntN(3)]
	p.DefaultAgeS = 3600
	p.Pol = genPolicy(r, false)
	p.Pol.MaxSteps = 12000
	res := PRes{Host: "origin.test", Path: "/shared", Size: []int{10, 3000, 70000}[r.IntN(3)], ETag: "strong", LastMod: r.IntN(2) == 0}
	res.CC = []string{"max-age=600"}
	if r.IntN(5) == 0 {
		res.CC = []string{"no-store"} // uncacheable outcome
	}
	if r.IntN(2) == 0 {
		res.Chunk = []int{1000, 20000}[r.IntN(2)]
		if res.Size/res.Chunk > 8 {
			res.Chunk = res.Size / 8
		}
	}
	if r.IntN(3) == 0 {
		// an origin behind a chain of intermediaries: fields the proxy itself adds to, already
		// carrying several lines (a stored value list with spare capacity is shared by every hit)
		for _, k := range []string{"Via", "X-Cache", "Cache-Status"} {
			for _, v := range []string{"1.1 edge-a", "1.1 edge-b", "1.0 edge-c"} {
				res.Extra = append(res.Extra, [2]string{k, v})
			}
		}
	}
	n := 2 + r.IntN(7)
	state := r.IntN(3) // 0 cold, 1 fresh, 2 stale
	at := int64(0)
	if state == 1 {
		p.Clients = append(p.Clients, []PReq{{Res: 0}})
		at = 5000
	} else if state == 2 {
		p.Clients = append(p.Clients, []PReq{{Res: 0}})
		at = 601000
		if r.IntN(3) == 0 {
			res.BumpAtMs = []int64{300000}
		}
	}
	for i := 0; i < n; i++ {
		q := PReq{Res: 0, AtMs: at}
		if r.IntN(4) == 0 {
			q.ReadChunk = []int{512, 8192}[r.IntN(2)]
		}
		p.Clients = append(p.Clients, []PReq{q})
	}
	if faults {
		// exactly one client hangs up at a chosen point
		ci := len(p.Clients) - 1 - r.IntN(n)
		q := &p.Clients[ci][0]
		if r.IntN(2) == 0 {
			q.Disconnect = -1
		} else {
			q.Disconnect = 1 + r.IntN(max(res.Size, 1))
			q.ReadChunk = 256
		}
		if r.IntN(3) == 0 {
			p.NetBuf = 4096 // small buffers: the proxy blocks on a slow or absent reader
		}
		if state == 2 && r.IntN(3) == 0 {
			res.EvictOnCond = true // the stale entry disappears while the shared revalidation is at the origin
		}
		if p.Transport == "connect" && r.IntN(3) == 0 {
			// one of the clients asks in a way the proxy cannot pass on (inside a tunnel the request
			// parser accepts a header name with a blank, the upstream transport refuses to send it):
			// that is its own problem, whoever else asks for the same resource at that moment
			cj := len(p.Clients) - 1 - r.IntN(n)
			if cj != ci {
				p.Clients[cj][0].Hdr = append(p.Clients[cj][0].Hdr, [2]string{"X Foo", "bar"})
				p.Clients[cj][0].Unsendable = true
			}
		}
	}
	p.Res = []PRes{res}
	return p
}

func genTroublePlan(r *rand.Rand) *ProxyPlan {
	p := &ProxyPlan{Family: "trouble"}
	p.Backend = []string{"memory", "file"}[r.IntN(2)]
	p.Shards = []int{1, 2, 16}[r.IntN(3)]
	p.IntervalMs = []int64{1000 * 3600 * 1000, 20000, 200000}[r.IntN(3)]
	p.Transport = []string{"plain", "plain", "connect"}[r.IntN(3)]
	p.DefaultAgeS = []int64{1, 60}[r.IntN(2)]
	p.Pol = genPolicy(r, true)
	p.Pol.MaxSteps = 12000
	if r.IntN(8) == 0 {
		// A revalidation that takes its time, and what happens to the entry meanwhile: the stored
		// response goes stale; one client's conditional request is answered 304 only after a few
		// seconds; in between the content changes and a Range request, which this origin answers in
		// full, stores the new version. Later requests show under which lifetime that version runs.
		p.MaxSize = 1 << 40
		p.DefaultAgeS = 60
		p.Pol.AdvanceP = 0
		d := int64(2000 + r.IntN(3)*1500)
		rs := PRes{Host: "origin.test", Path: "/t0", Size: []int{10, 3000}[r.IntN(2)], ETag: "strong", CC: []string{"max-age=1"}, CondDelayMs: d, LastMod: r.IntN(2) == 0}
		t0 := int64(2000)
		rs.BumpAtMs = []int64{t0 + 300 + int64(r.IntN(300))}
		p.Res = []PRes{rs}
		p.Clients = [][]PReq{
			{{Res: 0}, {Res: 0, AtMs: t0}}, // stores v1; revalidates it when stale (the slow 304)
			{{Res: 0, AtMs: t0 + 800, Range: []string{"bytes=0-4", "bytes=2-"}[r.IntN(2)]}}, // answered 200 with v2, which is stored
			{{Res: 0, AtMs: t0 + d + 2500}, {Res: 0, AtMs: t0 + d + 30000}, {Res: 0, AtMs: t0 + d + 90000}},
		}
		return p
	}
	sizes := []int{0, 10, 3000, 40000}
	nres := 1 + r.IntN(3)
	maxBody := 0
	for i := 0; i < nres; i++ {
		rs := PRes{Host: "origin.test", Path: "/t" + itoa(i), Size: sizes[r.IntN(len(sizes))], ETag: "strong"}
		rs.CC = [][]string{{"max-age=1"}, {"max-age=30"}, {"max-age=600"}}[r.IntN(3)]
		if r.IntN(3) == 0 {
			rs.Chunk = 10000
		}
		rs.EvictOnCond = r.IntN(4) == 0
		if r.IntN(6) == 0 {
			// an origin that refuses ranges: the proxy (retry switch on) asks again without Range, and
			// what it is answered then is the client's answer, whatever the cache can or cannot store
			rs.RangeMode = "416"
			p.Retry416 = true
		}
		if r.IntN(3) == 0 {
			// the representation changes (and grows) while it is being served: a Range request that
			// the origin answers in full stores the new version under the readers of the old one
			rs.SizeStep = []int{1, 10, 500}[r.IntN(3)]
			for t := int64(200); t < 3000; t += int64(300 + r.IntN(1500)) {
				rs.BumpAtMs = append(rs.BumpAtMs, t)
			}
		}
		if rs.Size > maxBody {
			maxBody = rs.Size
		}
		p.Res = append(p.Res, rs)
	}
	switch r.IntN(3) {
	case 0:
		p.MaxSize = 1 << 40
	case 1:
		p.MaxSize = int64(maxBody) + 1 // about one body: the next store must evict
	default:
		p.MaxSize = int64(maxBody)/2 + 1
	}
	if p.Backend == "file" && r.IntN(3) == 0 {
		p.DiskLimit = []int{1, 100, 5000}[r.IntN(3)]
	}
	nclients := 1 + r.IntN(4)
	for c := 0; c < nclients; c++ {
		var reqs []PReq
		at := int64(0)
		for i := 0; i < 1+r.IntN(4); i++ {
			at += []int64{0, 0, 500, 1500, 31000, 700000}[r.IntN(6)]
			q := PReq{Res: r.IntN(nres), AtMs: at}
			if r.IntN(5) == 0 {
				q.Range = []string{"bytes=0-4", "bytes=2-", "bytes=-3"}[r.IntN(3)]
			}
			if r.IntN(4) == 0 {
				q.ReadChunk = 1024
			}
			if r.IntN(10) == 0 {
				q.Body = 30 // content on a GET: unusual but legal, and it can be sent upstream only once
			}
			if r.IntN(12) == 0 {
				// "another client hanging up": this one leaves, the others must not notice
				q.Disconnect = []int{-1, 1, 2000}[r.IntN(3)]
				q.ReadChunk = 512
			}
			reqs = append(reqs, q)
		}
		p.Clients = append(p.Clients, reqs)
	}
	if r.IntN(2) == 0 {
		// an evictor: deletes whatever is stored, at instants the scheduler picks
		var ev []PReq
		for i := 0; i < 1+r.IntN(3); i++ {
			ev = append(ev, PReq{Evict: true, AtMs: []int64{0, 500, 1500, 31000}[r.IntN(4)]})
		}
		p.Clients = append(p.Clients, ev)
	}
	if p.Backend == "file" && r.IntN(4) == 0 {
		// a damaged disk: stored bodies lose their last bytes while nobody is being served. The entry
		// can no longer be served from the store; the origin is healthy, so the client still gets its answer.
		var ev []PReq
		for i := 0; i < 1+r.IntN(2); i++ {
			ev = append(ev, PReq{Truncate: []int{1, 9, 2000}[r.IntN(3)], AtMs: []int64{100, 400, 1200, 30000, 690000}[r.IntN(5)]})
		}
		p.Clients = append(p.Clients, ev)
	}
	return p
}

func init() {
	register(&Scenario{Name: "coal", Gen: func(r *rand.Rand, tier string) any { return genCoalPlan(r, false) }, Decode: decodeInto[ProxyPlan], Run: runProxyPlan, Shrink: shrinkProxyPlan})
	register(&Scenario{Name: "coal-fault", Gen: func(r *rand.Rand, tier string) any { return genCoalPlan(r, true) }, Decode: decodeInto[ProxyPlan], Run: runProxyPlan, Shrink: shrinkProxyPlan})
	register(&Scenario{Name: "trouble", Gen: func(r *rand.Rand, tier string) any { return genTroublePlan(r) }, Decode: decodeInto[ProxyPlan], Run: runProxyPlan, Shrink: shrinkProxyPlan})
	_ = time.Second
}

// genIntegrityPlan: C01 at proxy level — readers, refreshes, overwrites,
// evictions and origin aborts on the same few resources, concurrently.
func genIntegrityPlan(r *rand.Rand) *ProxyPlan {
	p := &ProxyPlan{Family: "integrity"}
	p.Backend = []string{"memory", "file"}[r.IntN(2)]
	p.Shards = []int{1, 2, 16}[r.IntN(3)]
	p.IntervalMs = []int64{1000 * 3600 * 1000, 2000, 20000}[r.IntN(3)]
	p.Transport = []string{"plain", "plain", "connect"}[r.IntN(3)]
	p.DefaultAgeS = []int64{1, 60}[r.IntN(2)]
	p.Pol = genPolicy(r, true)
	p.Pol.MaxSteps = 12000
	p.NetBuf = []int{0, 0, 2048}[r.IntN(3)]
	nres := 1 + r.IntN(3)
	maxBody := 0
	for i := 0; i < nres; i++ {
		rs := PRes{Host: "origin.test", Path: "/i" + itoa(i), Size: []int{10, 3000, 33000, 70000}[r.IntN(4)]}
		rs.ETag = []string{"strong", "strong", "weak", ""}[r.IntN(4)]
		rs.LastMod = r.IntN(2) == 0
		rs.CC = [][]string{{"max-age=1"}, {"max-age=2"}, {"max-age=600"}}[r.IntN(3)]
		rs.RangeMode = []string{"ignore", "ignore", "honor"}[r.IntN(3)]
		rs.CondMode = []string{"304", "304", "200"}[r.IntN(3)]
		for t := int64(0); t < 6000; t += int64(500 + r.IntN(3000)) {
			if r.IntN(2) == 0 {
				rs.BumpAtMs = append(rs.BumpAtMs, t)
			}
		}
		if r.IntN(2) == 0 {
			rs.Chunk = max(rs.Size/4, 1)
		}
		if r.IntN(4) == 0 && rs.Size > 20 {
			rs.AbortAt = 1 + r.IntN(rs.Size-1)
			rs.AbortN = 1 + r.IntN(2)
		}
		if r.IntN(5) == 0 {
			rs.NoLength = true
		}
		if rs.Size > maxBody {
			maxBody = rs.Size
		}
		p.Res = append(p.Res, rs)
	}
	if nres >= 2 && r.IntN(6) == 0 {
		p.Res[0].Redirect = 2 // res0 answers 302 -> res1
	}
	p.MaxSize = []int64{1 << 40, int64(maxBody) + 1, int64(2*maxBody) + 1}[r.IntN(3)]
	nclients := 2 + r.IntN(4)
	for c := 0; c < nclients; c++ {
		var reqs []PReq
		at := int64(0)
		for i := 0; i < 1+r.IntN(5); i++ {
			at += []int64{0, 0, 300, 1100, 2500}[r.IntN(5)]
			q := PReq{Res: r.IntN(nres), AtMs: at}
			if r.IntN(3) == 0 {
				q.Range = []string{"bytes=0-4", "bytes=2-", "bytes=-3", "bytes=5-5", "bytes=1-100000"}[r.IntN(5)]
			}
			if r.IntN(2) == 0 {
				q.ReadChunk = []int{64, 1024, 16384}[r.IntN(3)]
				if sz := p.Res[q.Res].Size; sz/q.ReadChunk > 10 {
					q.ReadChunk = sz / 10
				}
			}
			reqs = append(reqs, q)
		}
		p.Clients = append(p.Clients, reqs)
	}
	if r.IntN(3) == 0 {
		var ev []PReq
		for i := 0; i < 1+r.IntN(3); i++ {
			ev = append(ev, PReq{Evict: true, AtMs: []int64{0, 300, 1100, 2500}[r.IntN(4)]})
		}
		p.Clients = append(p.Clients, ev)
	}
	return p
}

func init() {
	register(&Scenario{Name: "integrity", Gen: func(r *rand.Rand, tier string) any { return genIntegrityPlan(r) }, Decode: decodeInto[ProxyPlan], Run: runProxyPlan, Shrink: shrinkProxyPlan})
}
