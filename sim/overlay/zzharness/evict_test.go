package zzharness

// C13: size limit enforced by LRU eviction (larger entries weighted up, stop at
// 80 %), cleanup removes exactly the expired, run-time limit/interval changes.

import (
	"context"
	"fmt"
	"math/rand/v2"
	"os"
	"path/filepath"
	"sort"
	"strings"
	"sync/atomic"
	"testing"
	"testing/synctest"
	"time"

	"reservoir/cache"
	"reservoir/config"
	"reservoir/metrics"
	"reservoir/utils/bytesize"
	"reservoir/utils/duration"
	"reservoir/zzsim"
)

type EvEntry struct {
	Size     int     `json:"size"`
	TTLMs    int64   `json:"ttl"`
	AccessMs []int64 `json:"access,omitempty"` // offsets (from the end of the population phase) at which the entry is read
}

type EvictPlan struct {
	Backend    string       `json:"backend"`
	Shards     int          `json:"shards"`
	KeySalt    int          `json:"keysalt"`
	Limit      int64        `json:"limit"`
	IntervalMs int64        `json:"interval_ms"`
	Entries    []EvEntry    `json:"entries"`
	NewLimit   int64        `json:"new_limit,omitempty"`    // limit changed at run time before the trigger
	PreLimit   int64        `json:"pre_limit,omitempty"`    // with NewLimit: another value is set first, NewLimit right behind it (two notifications in flight)
	NewIntMs   int64        `json:"new_interval,omitempty"` // interval changed at run time before the trigger
	IntBack    bool         `json:"interval_back,omitempty"` // with NewIntMs: the interval is then set back to the one the cache started with
	GapUs      int64        `json:"gap_us,omitempty"`       // time between two population stores in microseconds (default 2000)
	ShortenIdx int          `json:"shorten,omitempty"`      // tick: after the first complete cycle the lifetime of entry ShortenIdx-1 is cut to 1 ms through UpdateMetadata (what a revalidation does with a shorter default)
	Budget0    bool         `json:"budget0,omitempty"`      // memory backend, tick: the memory budget is set to 0 % at run time before the trigger: the limit in force is 0 bytes from then on
	Trigger    string       `json:"trigger"`                // "store" | "tick"
	TrigSize   int          `json:"trig_size"`
	Interferer int          `json:"interferer"`     // 0 none; else size of a slow concurrent store on another key
	Many       bool         `json:"many,omitempty"` // many small entries, limit = population, two stores starting together: overlapping eviction passes
	Pol        zzsim.Policy `json:"pol"`
}

const evKiB = 1024
const evMiB = 1024 * 1024

func genEvictPlan(r *rand.Rand) *EvictPlan {
	if r.IntN(4) == 0 {
		return genEvictManyPlan(r)
	}
	p := &EvictPlan{}
	p.Backend = []string{"memory", "file"}[r.IntN(2)]
	p.Shards = []int{1, 2, 3, 16, 64}[r.IntN(5)]
	p.KeySalt = r.IntN(1000)
	p.Pol = genPolicy(r, false)
	p.Pol.MaxSteps = 20000
	n := 2 + r.IntN(7)
	sizes := []int{100 * evKiB, 300 * evKiB, 900 * evKiB, evMiB + 200*evKiB, 2*evMiB + 100*evKiB, 3 * evMiB}
	total := int64(0)
	for i := 0; i < n; i++ {
		e := EvEntry{Size: sizes[r.IntN(len(sizes))], TTLMs: 3600 * 1000 * 100}
		if r.IntN(4) == 0 {
			e.TTLMs = []int64{1, 500, 5000, 45000}[r.IntN(4)]
		}
		for k := 0; k < r.IntN(3); k++ {
			e.AccessMs = append(e.AccessMs, int64(1+r.IntN(3000)))
		}
		sortInt64(e.AccessMs)
		p.Entries = append(p.Entries, e)
		total += int64(e.Size)
	}
	// limit around the population size: below, equal, slightly above, far above
	switch r.IntN(5) {
	case 0:
		p.Limit = total + int64(1+r.IntN(2*evMiB))
	case 1:
		p.Limit = total
	case 2:
		p.Limit = total - int64(r.IntN(int(total/2)+1))
	case 3:
		p.Limit = total * 2
	default:
		p.Limit = total*3/4 + 1
	}
	if p.Limit < 1 {
		p.Limit = 1
	}
	p.IntervalMs = []int64{4000, 10000, 60000}[r.IntN(3)]
	p.Trigger = []string{"store", "tick"}[r.IntN(2)]
	p.TrigSize = []int{1000, 200 * evKiB, evMiB}[r.IntN(3)]
	if r.IntN(3) == 0 {
		// the limit is changed at run time; the initial one is generous so nothing happens before
		p.NewLimit = p.Limit
		p.Limit = total * 4
		if r.IntN(4) != 0 {
			p.PreLimit = []int64{total * 8, 1000, total / 3}[r.IntN(3)]
		}
	}
	if r.IntN(4) == 0 && p.Trigger == "tick" {
		p.NewIntMs = []int64{1000, 2500, 3600000}[r.IntN(3)]
		// ... and back again: the value in force afterwards is the one the cache started with
		p.IntBack = r.IntN(2) == 0
	}
	if r.IntN(4) == 0 {
		p.Interferer = 600 * evKiB
	}
	if p.Trigger == "tick" && r.IntN(4) == 0 {
		p.ShortenIdx = 1 + r.IntN(n)
	}
	if p.Trigger == "tick" && p.Backend == "memory" && p.NewLimit == 0 && r.IntN(4) == 0 {
		// the other limit of the memory store: its share of the machine's memory. The only share that
		// is certain to lie below a few MiB is none at all.
		p.Budget0 = true
	}
	if r.IntN(4) == 0 {
		// a burst: the population arrives within one or two milliseconds
		p.GapUs = []int64{300, 50, 7}[r.IntN(3)]
	}
	return p
}

// genEvictManyPlan: the store is exactly at its limit with many small entries, and two stores on
// different keys begin in the same scheduling step, so their eviction passes overlap in whatever
// way the scheduler picks. One pass's worth (20 % of the limit) is much more than a few entries.
func genEvictManyPlan(r *rand.Rand) *EvictPlan {
	p := &EvictPlan{Many: true}
	p.Backend = []string{"memory", "file"}[r.IntN(2)]
	p.Shards = []int{2, 16, 64}[r.IntN(3)]
	p.KeySalt = r.IntN(1000)
	p.Pol = genPolicy(r, false)
	p.Pol.MaxSteps = 30000
	n := 30 + r.IntN(21)
	total := int64(0)
	for i := 0; i < n; i++ {
		e := EvEntry{Size: (100 + 10*r.IntN(11)) * evKiB, TTLMs: 3600 * 1000 * 100}
		if r.IntN(3) == 0 {
			e.AccessMs = []int64{int64(1 + r.IntN(3000))}
		}
		p.Entries = append(p.Entries, e)
		total += int64(e.Size)
	}
	p.Limit = total - int64(r.IntN(2))*int64(r.IntN(100*evKiB))
	p.IntervalMs = 60000
	p.Trigger = "store"
	p.TrigSize = 1000
	p.Interferer = []int{1000, 50 * evKiB}[r.IntN(2)]
	return p
}

type evSnap map[string]cache.VerifEntryInfo

func runEvictPlan(t *testing.T, planAny any, ctl Ctl) *Result {
	p := planAny.(*EvictPlan)
	res := newResult()
	dir := newRunDir()
	os.Chdir(dir)
	os.MkdirAll(filepath.Join(dir, "var"), 0o755)
	defer os.RemoveAll(dir)
	var keys []cache.CacheKey
	for i := 0; i <= len(p.Entries)+1; i++ {
		keys = append(keys, cache.FromString(fmt.Sprintf("ev-%d-%d", p.KeySalt, i)))
	}
	trigKey := keys[len(p.Entries)]
	intKey := keys[len(p.Entries)+1]
	var before, after evSnap
	var trigCall, trigRet, intCall, intRet int64
	var seq int64
	var trigErr error
	var start, trigStartT, trigEndT time.Time
	var evictionsBefore, evictionsAfter, cyclesAtTrigger, evCyclesAfter int64
	bubble(t, res, func() {
		metrics.Global = metrics.NewMetrics()
		s := zzsim.New(ctl.Seed, racePol(p.Pol))
		if ctl.Replay != nil {
			s.SetReplay(ctl.Replay, ctl.Guided)
		}
		s.Attach()
		defer s.Detach()
		s.Exempt()
		start = time.Now()
		cfg := config.NewDefault()
		cfg.Cache.MaxCacheSize.Stage(bytesize.ByteSize(p.Limit))
		cfg.Cache.MaxCacheSize.CommitStaged()
		cfg.Cache.CleanupInterval.Stage(duration.Duration(time.Duration(p.IntervalMs) * time.Millisecond))
		cfg.Cache.CleanupInterval.CommitStaged()
		ctx, cancel := context.WithCancel(context.Background())
		interval := time.Duration(p.IntervalMs) * time.Millisecond
		var c cache.Cache[CMeta]
		if p.Backend == "file" {
			c = cache.NewFileCache[CMeta](cfg, filepath.Join(dir, "cache"), p.Limit, interval, p.Shards, ctx)
		} else {
			c = cache.NewMemoryCache[CMeta](cfg, 75, p.Limit, interval, p.Shards, ctx)
		}
		s.Unexempt()
		w := &cacheWorld{p: &CachePlan{Backend: p.Backend}, sim: s, c: c, cfg: cfg, dir: dir, res: res}
		var trigReady atomic.Bool
		interfererStore := func() {
			resMu.Lock()
			seq++
			intCall = seq
			resMu.Unlock()
			src := &srcReader{w: w, data: body(98, 1, p.Interferer), chunk: max(p.Interferer/6, 1)}
			if ent, err := c.Cache(intKey, src, time.Now().Add(100*time.Hour), CMeta{98, 1}); err == nil && ent != nil && ent.Data != nil {
				ent.Data.Close()
			}
			resMu.Lock()
			seq++
			intRet = seq
			resMu.Unlock()
		}
		s.Spawn("actor:driver", func() {
			// population: stores 2 ms apart, all inside the first 100 ms (before any tick)
			for i, e := range p.Entries {
				src := &srcReader{w: w, data: body(i, 1, e.Size)}
				ent, err := c.Cache(keys[i], src, time.Now().Add(time.Duration(e.TTLMs)*time.Millisecond), CMeta{i, 1})
				if err != nil {
					res.Notes = append(res.Notes, fmt.Sprintf("population store %d failed: %v", i, err))
				} else if ent != nil && ent.Data != nil {
					ent.Data.Close()
				}
				gap := 2 * time.Millisecond
				if p.GapUs > 0 {
					gap = time.Duration(p.GapUs) * time.Microsecond
				}
				s.WaitUntil("harness:ev-gap", time.Now().Add(gap))
			}
			base := time.Now()
			// accesses in time order
			type acc struct {
				at int64
				k  int
			}
			var accs []acc
			for i, e := range p.Entries {
				for _, a := range e.AccessMs {
					accs = append(accs, acc{a, i})
				}
			}
			sort.Slice(accs, func(i, j int) bool {
				return accs[i].at < accs[j].at || (accs[i].at == accs[j].at && accs[i].k < accs[j].k)
			})
			for _, a := range accs {
				s.WaitUntil("harness:ev-access", base.Add(time.Duration(a.at)*time.Millisecond))
				if ent, err := c.Get(keys[a.k]); err == nil {
					ent.Data.Close()
				}
			}
			s.WaitUntil("harness:ev-settle", base.Add(3100*time.Millisecond))
			if p.ShortenIdx > 0 {
				// one complete cycle over the population first, then one entry's lifetime is cut short
				for i := 0; i < 400 && metrics.Global.Cache.CleanupRuns.Get() == 0; i++ {
					s.WaitUntil("harness:ev-first-cycle", time.Now().Add(250*time.Millisecond))
				}
				if err := c.UpdateMetadata(keys[p.ShortenIdx-1], func(m *cache.EntryMetadata[CMeta]) { m.Expires = time.Now().Add(time.Millisecond) }); err == nil {
					res.probe("lifetime_cut_short_after_a_cycle")
				}
			}
			if p.NewLimit > 0 {
				// with PreLimit: several changes right behind one another, the wanted value last; every
				// change has its own notification task, and any of them may be the last one to run
				for i := 0; p.PreLimit > 0 && i < 3; i++ {
					config.UpdatePartialFromConfig(cfg, map[string]any{"cache": map[string]any{"max_cache_size": fmt.Sprintf("%dB", p.PreLimit+int64(i))}})
					if i < 2 {
						config.UpdatePartialFromConfig(cfg, map[string]any{"cache": map[string]any{"max_cache_size": fmt.Sprintf("%dB", p.NewLimit)}})
					}
				}
				config.UpdatePartialFromConfig(cfg, map[string]any{"cache": map[string]any{"max_cache_size": fmt.Sprintf("%dB", p.NewLimit)}})
			}
			if p.Budget0 {
				config.UpdatePartialFromConfig(cfg, map[string]any{"cache": map[string]any{"memory": map[string]any{"memory_budget_percent": float64(0)}}})
			}
			if p.NewIntMs > 0 {
				config.UpdatePartialFromConfig(cfg, map[string]any{"cache": map[string]any{"cleanup_interval": (time.Duration(p.NewIntMs) * time.Millisecond).String()}})
				if p.IntBack {
					s.WaitUntil("harness:ev-notify", time.Now().Add(5*time.Millisecond))
					config.UpdatePartialFromConfig(cfg, map[string]any{"cache": map[string]any{"cleanup_interval": (time.Duration(p.IntervalMs) * time.Millisecond).String()}})
				}
			}
			// let the notifications be delivered (they are separate tasks)
			s.WaitUntil("harness:ev-notify", time.Now().Add(5*time.Millisecond))
			before = evSnap(cache.VerifPeek(c))
			evictionsBefore = metrics.Global.Cache.CacheEvictions.Get()
			cyclesAtTrigger = metrics.Global.Cache.CleanupRuns.Get()
			trigStartT = time.Now()
			trigReady.Store(true)
			resMu.Lock()
			seq++
			trigCall = seq
			resMu.Unlock()
			if p.Many && p.Interferer > 0 {
				// begins in the same step as the trigger: from here on the scheduler interleaves the two stores
				s.Spawn("actor:interferer", interfererStore)
			}
			switch p.Trigger {
			case "store":
				src := &srcReader{w: w, data: body(99, 1, p.TrigSize)}
				ent, err := c.Cache(trigKey, src, time.Now().Add(100*time.Hour), CMeta{99, 1})
				trigErr = err
				if err == nil && ent != nil && ent.Data != nil {
					ent.Data.Close()
				}
			case "tick":
				for i := 0; i < 400 && metrics.Global.Cache.CleanupRuns.Get() == cyclesAtTrigger; i++ {
					s.WaitUntil("harness:ev-tick", time.Now().Add(250*time.Millisecond))
				}
				// the interval in force governs the following cycles: one must have come by now
				inForce := p.IntervalMs
				if p.NewIntMs > 0 && !p.IntBack {
					inForce = p.NewIntMs
				}
				if waited := time.Since(trigStartT); metrics.Global.Cache.CleanupRuns.Get() == cyclesAtTrigger && waited > 2*time.Duration(inForce)*time.Millisecond+time.Second {
					res.violate("C13.f", "no-cycle-within-the-interval-in-force", "no cleanup cycle ran in %v although the interval in force is %v (started with %v, changed to %v at run time, set back: %v)", waited.Round(time.Millisecond), time.Duration(inForce)*time.Millisecond, time.Duration(p.IntervalMs)*time.Millisecond, time.Duration(p.NewIntMs)*time.Millisecond, p.IntBack)
				}
			}
			resMu.Lock()
			seq++
			trigRet = seq
			resMu.Unlock()
			trigEndT = time.Now()
			evCyclesAfter = metrics.Global.Cache.CleanupRuns.Get()
			after = evSnap(cache.VerifPeek(c))
			evictionsAfter = metrics.Global.Cache.CacheEvictions.Get()
		})
		if p.Interferer > 0 && !p.Many {
			s.Spawn("actor:interferer", func() {
				for !trigReady.Load() {
					s.WaitUntil("harness:ev-int-wait", time.Now().Add(100*time.Millisecond))
					if time.Since(start) > 20*time.Second {
						return
					}
				}
				interfererStore()
			})
		}
		end := s.Run(func() bool { return s.TaskDone("actor:driver") && s.TaskDone("actor:interferer") })
		finishSched(res, s, end)
		if end == "stuck" {
			res.violate("C14.a", "stuck evict", "no task can make progress: %s", s.Stuck)
		}
		for _, pm := range s.Panics {
			res.violate("C16.b", "task panic", "task panicked: %s", pm)
		}
		cancel()
		c.Destroy()
		s.Drain(func(n string) bool { return true })
		for i := 0; i < 20; i++ {
			synctest.Wait()
			if cache.VerifDrainIntervalChan(c) == 0 {
				break
			}
		}
	})
	if res.Infra != "" || before == nil || after == nil {
		return res
	}
	if p.Trigger == "tick" && evCyclesAfter == cyclesAtTrigger {
		// no cycle ran while the driver waited (the interval in force is longer than that, or the
		// rule above has reported it): there is no cycle to judge
		res.Probes["no_cycle_in_window"]++
		return res
	}
	judgeEvict(p, res, keys, before, after, trigErr, intCall > 0 && intCall < trigRet && intRet > trigCall, start, trigStartT, trigEndT, evictionsAfter-evictionsBefore)
	return res
}

func judgeEvict(p *EvictPlan, res *Result, keys []cache.CacheKey, before, after evSnap, trigErr error, interfered bool, start, trigT, trigEndT time.Time, evictions int64) {
	limit := p.Limit
	if p.NewLimit > 0 {
		limit = p.NewLimit
	}
	if p.Budget0 {
		limit = 0 // the smaller of the two configured limits
	}
	target := int64(float64(limit) * 0.8)
	trigKey := keys[len(p.Entries)].Hex
	intKey := keys[len(p.Entries)+1].Hex
	trigShard := cache.VerifShardIndex(keys[len(p.Entries)], p.Shards)
	intShard := cache.VerifShardIndex(keys[len(p.Entries)+1], p.Shards)
	idxOf := map[string]int{}
	for i := range p.Entries {
		idxOf[keys[i].Hex] = i
	}
	var totalBefore int64
	for k, e := range before {
		if k != intKey {
			totalBefore += e.Size
		}
	}
	if _, ok := before[intKey]; ok {
		interfered = true // already stored: it is simply one more (unjudged) entry
		totalBefore += before[intKey].Size
	}
	desc := fmt.Sprintf("%s shards=%d limit=%d (80%%=%d) trigger=%s population=%d entries/%d bytes", p.Backend, p.Shards, limit, target, p.Trigger, len(before), totalBefore)
	exempt := func(k string) bool {
		i, ok := idxOf[k]
		if !ok {
			return true
		}
		sh := cache.VerifShardIndex(keys[i], p.Shards)
		if p.Trigger == "store" && sh == trigShard {
			return true // the triggering store holds its own shard lock
		}
		if interfered && sh == intShard {
			return true
		}
		return false
	}
	// certainly expired when the cycle started / possibly expired by the time it ran
	expiredAtTrigger := func(k string) bool { return before[k].Expires.Before(trigT) }
	maybeExpired := func(k string) bool { return !before[k].Expires.After(trigEndT) }
	var evicted, survivors []string
	for k := range before {
		if k == intKey || k == trigKey {
			continue
		}
		if _, ok := after[k]; ok {
			survivors = append(survivors, k)
		} else {
			evicted = append(evicted, k)
		}
	}
	sort.Strings(evicted)
	sort.Strings(survivors)
	var totalAfterOld int64 // pre-existing entries that survived (+ interferer entry if it was there before)
	for _, k := range survivors {
		totalAfterOld += after[k].Size
	}
	name := func(k string) string {
		i := idxOf[k]
		return fmt.Sprintf("e%d(%dK,access+%v%s)", i, before[k].Size/1024, before[k].LastAccess.Sub(start).Round(time.Millisecond), map[bool]string{true: ",expired", false: ""}[expiredAtTrigger(k)])
	}
	names := func(ks []string) string {
		var o []string
		for _, k := range ks {
			o = append(o, name(k))
		}
		return strings.Join(o, " ")
	}
	res.Evals++
	if len(evicted) > 0 {
		res.Probes["entries_removed"] += len(evicted)
		res.Nontrivial = true
	}
	if evictions > 0 {
		res.Probes["lru_evictions"] += int(evictions)
	}
	over := totalBefore >= limit
	// entries a tick removes because they are expired are C13.e's, not eviction
	var lruEvicted []string
	for _, k := range evicted {
		if p.Trigger == "tick" && maybeExpired(k) {
			continue
		}
		lruEvicted = append(lruEvicted, k)
	}
	sizeForEviction := totalBefore
	sizeUpper := totalBefore // counting entries whose expiry falls inside the trigger window as still present
	if p.Trigger == "tick" {
		for _, k := range evicted {
			if maybeExpired(k) {
				sizeForEviction -= before[k].Size
				if expiredAtTrigger(k) {
					sizeUpper -= before[k].Size
				}
			}
		}
		// C13.e
		for _, k := range survivors {
			if expiredAtTrigger(k) && !exempt(k) && !after[k].Expires.After(trigT) {
				res.violate("C13.e", "expired-entry-survived-cycle", "%s: %s was expired when the cycle started and is still there [%s]", desc, name(k), names(survivors))
			}
		}
		over = sizeForEviction >= limit
	}
	if interfered {
		// the concurrent store is itself "the next store": it may evict on its own account (before
		// the expired entries are cleaned) and its size may or may not be counted yet. Only the
		// order and expiry rules are judged in these runs.
		res.Probes["concurrent_store_during_trigger"]++
		// The order is not judged here: a pass skips a candidate whose shard lock is taken at that
		// moment, and the other store's pass takes the lock of whatever shard it is removing from,
		// so any entry can legitimately be passed over ("in use") while two passes overlap.
		// C13.d with concurrent passes: a pass removes an entry only after seeing the store above the
		// target, and the store is never larger than the old entries still present plus the two new
		// ones. With up to three passes (two stores, one tick) each having one removal in flight, the
		// old entries cannot legitimately fall below target - new entries - 3 x the largest removed.
		anyExpiry := false
		for k := range before {
			if maybeExpired(k) {
				anyExpiry = true
			}
		}
		if p.Trigger == "store" && !anyExpiry && len(lruEvicted) > 0 {
			maxEv := int64(0)
			for _, k := range lruEvicted {
				maxEv = max(maxEv, before[k].Size)
			}
			slack := 3*maxEv + int64(p.TrigSize) + int64(p.Interferer)
			if totalAfterOld+slack <= target {
				res.violate("C13.d", "evicted-more-than-needed concurrent-stores", "%s: two stores ran concurrently; %d bytes of the %d pre-existing remain, target %d, largest removed entry %d, new entries %d+%d bytes: more was removed than overlapping passes that each stop at the target can remove (%d entries evicted)", desc, totalAfterOld, totalBefore, target, maxEv, p.TrigSize, p.Interferer, len(lruEvicted))
			} else if totalBefore >= limit {
				res.Probes["concurrent_passes_judged"]++
			}
		}
		return
	}
	if !over && sizeUpper >= limit {
		res.Probes["limit_depends_on_expiry_inside_window"]++
		return
	}
	if !over {
		// C13.a: below the limit nothing is evicted
		if len(lruEvicted) > 0 {
			res.violate("C13.a", "evicted-below-limit", "%s: size %d is below the limit but %s was removed", desc, sizeForEviction, names(lruEvicted))
		}
		res.Probes["trigger_below_limit"]++
		return
	}
	res.Probes["trigger_at_or_over_limit"]++
	if p.NewLimit > 0 {
		res.Probes["limit_changed_at_run_time"]++
	}
	if p.Budget0 {
		res.Probes["memory_budget_lowered_at_run_time"]++
	}
	// C13.b: down to 80 % unless only exempt entries are left
	nonExemptLeft := false
	for _, k := range survivors {
		if !exempt(k) {
			nonExemptLeft = true
		}
	}
	afterSize := totalAfterOld
	if afterSize > target && nonExemptLeft {
		rule := "C13.b"
		if p.NewLimit > 0 || p.Budget0 {
			rule = "C13.f"
		}
		res.violate(rule, "not-evicted-to-80-percent", "%s: %d bytes of pre-existing entries remain (> %d) although evictable entries are left: evicted [%s], kept [%s]", desc, afterSize, target, names(lruEvicted), names(survivors))
	}
	judgeEvictOrder(p, res, desc, before, survivors, lruEvicted, exempt, name)
	// C13.d: stop as soon as the target is reached
	if len(lruEvicted) > 0 && !interfered {
		maxEv := int64(0)
		for _, k := range lruEvicted {
			if before[k].Size > maxEv {
				maxEv = before[k].Size
			}
		}
		if afterSize+maxEv <= target {
			res.violate("C13.d", "evicted-more-than-needed", "%s: %d bytes remain; even with the largest evicted entry (%d bytes) back the size would be within the target %d: evicted [%s]", desc, afterSize, maxEv, target, names(lruEvicted))
		}
	}
	_ = trigErr
}

func judgeEvictOrder(p *EvictPlan, res *Result, desc string, before evSnap, survivors, lruEvicted []string, exempt func(string) bool, name func(string) string) {
	// C13.c: order (Pareto dominance)
	for _, x := range survivors {
		if exempt(x) {
			continue
		}
		for _, y := range lruEvicted {
			bx, by := before[x], before[y]
			older := by.LastAccess.After(bx.LastAccess)                        // x strictly less recently used, by however little
			notNewer := !bx.LastAccess.After(by.LastAccess)                    // x not more recently used
			bigger := bx.Size/evMiB > by.Size/evMiB                            // strictly heavier in the weight's resolution
			notSmaller := bx.Size >= by.Size && bx.Size/evMiB >= by.Size/evMiB // at least as heavy
			if notNewer && notSmaller && (older || bigger) {
				res.violate("C13.c", "lru-order", "%s: %s was kept although it is both less recently used and at least as large as %s, which was evicted", desc, name(x), name(y))
				continue
			}
			// "larger entries weighted up": the weight is the one the property's mechanism note gives,
			// 100 ms of age per whole MiB. The order of two entries under it does not depend on when
			// the pass runs: x goes before y iff  (y's last use - x's last use) + 100 ms * (MiB(x) - MiB(y)) > 0.
			lead := by.LastAccess.Sub(bx.LastAccess) + 100*time.Millisecond*time.Duration(bx.Size/evMiB-by.Size/evMiB)
			if lead > 0 {
				res.violate("C13.c", "weighted-order", "%s: %s was kept although its eviction priority (time since last use plus 100 ms per whole MiB) is %v ahead of that of %s, which was evicted", desc, name(x), lead, name(y))
			}
		}
	}
}

func shrinkEvictPlan(planAny any) []any {
	p := planAny.(*EvictPlan)
	var out []any
	for i := range p.Entries {
		if len(p.Entries) > 1 {
			q := *p
			q.Entries = append(append([]EvEntry{}, p.Entries[:i]...), p.Entries[i+1:]...)
			out = append(out, &q)
		}
	}
	for i, e := range p.Entries {
		if len(e.AccessMs) > 0 {
			q := *p
			q.Entries = append([]EvEntry{}, p.Entries...)
			q.Entries[i].AccessMs = nil
			out = append(out, &q)
		}
	}
	if p.Interferer > 0 {
		q := *p
		q.Interferer = 0
		out = append(out, &q)
	}
	if p.Shards != 64 {
		q := *p
		q.Shards = 64
		out = append(out, &q)
	}
	if p.NewIntMs > 0 {
		q := *p
		q.NewIntMs = 0
		out = append(out, &q)
	}
	return out
}

func init() {
	register(&Scenario{Name: "evict", Gen: func(r *rand.Rand, tier string) any { return genEvictPlan(r) }, Decode: decodeInto[EvictPlan], Run: runEvictPlan, Shrink: shrinkEvictPlan})
}
