package zzharness

// cacheworld: scenarios on the cache.Cache API of both backends (no HTTP).
// Serves C01 (cache level), C12, C13, C14.

import (
	"context"
	"errors"
	"fmt"
	"io"
	"math/rand/v2"
	"os"
	"path/filepath"
	"sort"
	"strings"
	"sync"
	"testing"
	"testing/synctest"
	"time"

	"github.com/anishathalye/porcupine"

	"reservoir/cache"
	"reservoir/config"
	"reservoir/metrics"
	"reservoir/utils/bytesize"
	"reservoir/utils/duration"
	"reservoir/zzsim"
)

type CMeta struct{ K, V int }

type COp struct {
	Kind      string `json:"k"` // put get del upd meta wait setmax setint destroy
	Key       int    `json:"key"`
	Ver       int    `json:"ver,omitempty"`
	Size      int    `json:"size,omitempty"`
	TTLMs     int64  `json:"ttl,omitempty"`
	FailAt    int    `json:"fail,omitempty"` // >0: source reader fails after this many bytes
	Empty     bool   `json:"empty,omitempty"`
	Chunk     int    `json:"chunk,omitempty"`  // source chunk size (yield between chunks); 0: one piece
	RChunk    int    `json:"rchunk,omitempty"` // reader chunk size; 0: everything at once
	ReadAt    bool   `json:"readat,omitempty"`
	WaitMs    int64  `json:"wait,omitempty"`
	Val       int64  `json:"val,omitempty"`
	Burst     int    `json:"burst,omitempty"` // setmax: this many further limit changes right behind the first
	DiskFault string `json:"disk,omitempty"`  // file backend: "squat" (a directory sits on the entry's name), "fsize" (write fails after DiskAt bytes, RLIMIT_FSIZE), "vanish" (file unlinked before get)
	DiskAt    int    `json:"disk_at,omitempty"`
}

type CachePlan struct {
	Family     string       `json:"family"`
	Backend    string       `json:"backend"`
	Shards     int          `json:"shards"`
	NKeys      int          `json:"nkeys"`
	KeySalt    int          `json:"keysalt"`
	MaxSize    int64        `json:"max"`
	IntervalMs int64        `json:"interval_ms"`
	Actors     [][]COp      `json:"actors"`
	Pol        zzsim.Policy `json:"pol"`
	SettleTick bool         `json:"settle_tick"` // second checkpoint after two janitor cycles
	CrashStep  int          `json:"crash_step,omitempty"`
}

type cev struct {
	Actor, Idx        int
	Op                COp
	Call, Ret         int64
	CallStep, RetStep int
	CallT, RetT       time.Time
	Done              bool
	Err               error
	Found             bool
	Got               []byte
	ReadErr           error
	MetaSize0         int64
	MetaObj0          CMeta
	MetaSize1         int64
	MetaObj1          CMeta
	Stale             bool
}

type cacheWorld struct {
	lost map[int]bool // keys whose file the harness removed at some point (disk fault "vanish")
	p     *CachePlan
	sim   *zzsim.Sched
	c     cache.Cache[CMeta]
	cfg   *config.Config
	dir   string
	keys  []cache.CacheKey
	seq   int64
	hist  []*cev
	res   *Result
	destr bool
}

var errSrc = errors.New("sim: source reader failed")

// the instant at which every synctest bubble starts
var simEpoch = time.Date(2000, 1, 1, 0, 0, 0, 0, time.UTC)

type srcReader struct {
	w      *cacheWorld
	data   []byte
	pos    int
	chunk  int
	failAt int
}

func (r *srcReader) Read(p []byte) (int, error) {
	if r.pos > 0 {
		r.w.sim.Yield("harness:src-chunk")
	}
	if r.failAt > 0 && r.pos >= r.failAt {
		r.w.res.fault("src_fail")
		return 0, errSrc
	}
	if r.pos >= len(r.data) {
		return 0, io.EOF
	}
	n := len(r.data) - r.pos
	if n > len(p) {
		n = len(p)
	}
	if r.chunk > 0 && n > r.chunk {
		n = r.chunk
	}
	if r.failAt > 0 && r.pos+n > r.failAt {
		n = r.failAt - r.pos
	}
	copy(p, r.data[r.pos:r.pos+n])
	r.pos += n
	return n, nil
}

func (w *cacheWorld) key(i int) cache.CacheKey { return w.keys[i] }

func (w *cacheWorld) begin(a, i int, op COp) *cev {
	resMu.Lock()
	defer resMu.Unlock()
	w.seq++
	e := &cev{Actor: a, Idx: i, Op: op, Call: w.seq, CallStep: w.sim.Steps, CallT: time.Now()}
	w.hist = append(w.hist, e)
	return e
}

func (w *cacheWorld) end(e *cev, err error) {
	resMu.Lock()
	defer resMu.Unlock()
	w.seq++
	e.Ret = w.seq
	e.RetStep = w.sim.Steps
	e.RetT = time.Now()
	e.Err = err
	e.Done = true
}

func (w *cacheWorld) readEntry(e *cev, ent *cache.Entry[CMeta], rchunk int, readAt bool) {
	e.Found = true
	e.Stale = ent.Stale
	e.MetaSize0 = ent.Metadata.Size
	e.MetaObj0 = ent.Metadata.Object
	defer ent.Data.Close()
	var got []byte
	if rchunk <= 0 {
		b, err := io.ReadAll(io.LimitReader(ent.Data, 8<<20))
		got, e.ReadErr = b, err
	} else {
		if m := int(ent.Metadata.Size) / 12; rchunk < m {
			rchunk = m // keep the number of reader yields bounded
		}
		buf := make([]byte, rchunk)
		off := int64(0)
		for {
			var n int
			var err error
			if readAt {
				n, err = ent.Data.ReadAt(buf, off)
			} else {
				n, err = ent.Data.Read(buf)
			}
			got = append(got, buf[:n]...)
			off += int64(n)
			if err == io.EOF {
				break
			}
			if err != nil {
				e.ReadErr = err
				break
			}
			if n == 0 {
				e.ReadErr = errors.New("zero-length read without error")
				break
			}
			w.res.probe("reader_between_chunks")
			w.sim.Yield("harness:read-chunk")
		}
	}
	e.Got = got
	e.MetaSize1 = ent.Metadata.Size
	e.MetaObj1 = ent.Metadata.Object
}

// freshAtAccess (C03.a at the cache level): an entry reported fresh must not have been expired
// already when the lookup first obtained a lock, i.e. before it could look at the entry at all. A
// lookup that reads the clock, then queues behind a slow store on the same shard, and judges
// freshness by the old reading reports entries as fresh that expired while it waited.
func (w *cacheWorld) freshAtAccess(e *cev, stale bool, expires time.Time, what string) {
	acq, ok := w.sim.FirstAcquire()
	if !ok {
		return
	}
	w.res.Evals++
	if acq.After(e.CallT) {
		w.res.probe("lookup_waited_while_time_passed")
	}
	if !stale && expires.Before(acq) {
		w.res.violate("C03.a", "expired-entry-reported-fresh-after-waiting-for-its-lock", "%s(key %d) called at +%v obtained its first lock at +%v and reported the entry fresh although it had expired at +%v [%s]", what, e.Op.Key, e.CallT.Sub(simEpoch), acq.Sub(simEpoch), expires.Sub(simEpoch), fmt.Sprintf("%s shards=%d keys=%d", w.p.Backend, w.p.Shards, w.p.NKeys))
	}
}

func (w *cacheWorld) exec(a, i int, op COp) {
	switch op.Kind {
	case "put":
		e := w.begin(a, i, op)
		var data []byte
		if !op.Empty {
			data = body(op.Key, op.Ver, op.Size)
		} else {
			w.res.fault("src_empty")
		}
		undo := w.armDiskFault(op)
		src := &srcReader{w: w, data: data, chunk: op.Chunk, failAt: op.FailAt}
		ttl := time.Duration(op.TTLMs) * time.Millisecond
		ent, err := w.c.Cache(w.key(op.Key), src, time.Now().Add(ttl), CMeta{op.Key, op.Ver})
		undo()
		if err == nil && ent != nil && ent.Data != nil {
			ent.Data.Close()
		}
		w.end(e, err)
	case "get":
		e := w.begin(a, i, op)
		w.vanish(op)
		w.sim.MarkOp()
		ent, err := w.c.Get(w.key(op.Key))
		if err == nil {
			w.freshAtAccess(e, ent.Stale, ent.Metadata.Expires, "Get")
			w.readEntry(e, ent, op.RChunk, op.ReadAt)
		}
		w.end(e, err)
	case "del":
		e := w.begin(a, i, op)
		w.vanish(op)
		w.end(e, w.c.Delete(w.key(op.Key)))
	case "upd":
		e := w.begin(a, i, op)
		ttl := time.Duration(op.TTLMs) * time.Millisecond
		err := w.c.UpdateMetadata(w.key(op.Key), func(m *cache.EntryMetadata[CMeta]) { m.Expires = time.Now().Add(ttl) })
		w.end(e, err)
	case "meta":
		e := w.begin(a, i, op)
		w.sim.MarkOp()
		m, stale, err := w.c.GetMetadata(w.key(op.Key))
		if err == nil {
			w.freshAtAccess(e, stale, m.Expires, "GetMetadata")
			e.Found, e.Stale, e.MetaSize0, e.MetaObj0 = true, stale, m.Size, m.Object
		}
		w.end(e, err)
	case "wait":
		w.sim.WaitUntil("harness:wait", time.Now().Add(time.Duration(op.WaitMs)*time.Millisecond))
	case "setmax":
		e := w.begin(a, i, op)
		var err error
		for k := 0; k <= op.Burst; k++ {
			_, err = config.UpdatePartialFromConfig(w.cfg, map[string]any{"cache": map[string]any{"max_cache_size": fmt.Sprintf("%dB", op.Val+int64(op.Burst-k))}})
		}
		w.end(e, err)
	case "setint":
		e := w.begin(a, i, op)
		var err error
		for k := 0; k <= op.Burst; k++ {
			_, err = config.UpdatePartialFromConfig(w.cfg, map[string]any{"cache": map[string]any{"cleanup_interval": (time.Duration(op.Val+int64(op.Burst-k)) * time.Millisecond).String()}})
		}
		w.end(e, err)
	case "destroy":
		e := w.begin(a, i, op)
		w.destr = true
		w.c.Destroy()
		w.end(e, nil)
	}
}

// vanish loses the file of the operation's key behind the cache's back. From then on the entry is
// listed but cannot be read, until the cache removes or replaces it.
func (w *cacheWorld) vanish(op COp) {
	if op.DiskFault != "vanish" || w.p.Backend != "file" {
		return
	}
	if os.Remove(filepath.Join(w.dir, "cache", w.key(op.Key).Hex)) == nil {
		w.res.fault("disk_vanish")
		if w.lost == nil {
			w.lost = map[int]bool{}
		}
		w.lost[op.Key] = true
	}
}

// armDiskFault prepares a file-system condition for the coming store and
// returns the function that removes it again.
func (w *cacheWorld) armDiskFault(op COp) func() {
	if w.p.Backend != "file" || op.DiskFault == "" {
		return func() {}
	}
	path := filepath.Join(w.dir, "cache", w.key(op.Key).Hex)
	switch op.DiskFault {
	case "squat":
		// a directory with the entry's file name: os.Create fails
		if _, err := os.Lstat(path); err == nil {
			return func() {}
		}
		if os.Mkdir(path, 0o755) == nil {
			w.res.fault("disk_create_fails")
			return func() { os.Remove(path) }
		}
	case "fsize":
		// the kernel refuses to grow any file beyond DiskAt bytes: a short write followed by EFBIG
		if op.DiskAt > 0 {
			restore := setFsizeLimit(uint64(op.DiskAt))
			w.res.fault("disk_short_write")
			return restore
		}
	}
	return func() {}
}

type cacheSnapshot struct {
	Reported   int64
	Entries    int64
	Internal   int64
	ActualB    int64
	ActualN    int
	MetaSum    int64
	Present    map[int]int // key -> body length
	DirFiles   map[string]int64
	DirErr     error
	ReadErrors []string
	LostB      int64 // entries still listed whose file the harness removed (disk fault "vanish"): recorded bytes
	LostN      int
}

func (w *cacheWorld) snapshot() *cacheSnapshot {
	sn := &cacheSnapshot{Present: map[int]int{}}
	for k := range w.keys {
		ent, err := w.c.Get(w.key(k))
		if err != nil {
			if !errors.Is(err, cache.ErrCacheEntryNotFound) {
				if w.lost[k] {
					// the harness took this entry's file away: as long as the cache lists the entry, what it
					// recorded for it is still counted; once the entry is removed, nothing of it is
					if m, _, merr := w.c.GetMetadata(w.key(k)); merr == nil {
						sn.LostB += m.Size
						sn.LostN++
					}
					continue
				}
				sn.ReadErrors = append(sn.ReadErrors, fmt.Sprintf("k%d: %v", k, err))
			}
			continue
		}
		b, rerr := io.ReadAll(io.LimitReader(ent.Data, 8<<20))
		ent.Data.Close()
		if rerr != nil {
			sn.ReadErrors = append(sn.ReadErrors, fmt.Sprintf("k%d read: %v", k, rerr))
		}
		sn.Present[k] = len(b)
		sn.ActualB += int64(len(b))
		sn.ActualN++
		sn.MetaSum += ent.Metadata.Size
	}
	// counters last: the Gets above do not change them
	sn.Reported = metrics.Global.Cache.BytesCached.Get()
	sn.Entries = metrics.Global.Cache.CacheEntries.Get()
	sn.Internal = cache.VerifByteSize(w.c)
	if w.p.Backend == "file" {
		sn.DirFiles = map[string]int64{}
		des, err := os.ReadDir(filepath.Join(w.dir, "cache"))
		sn.DirErr = err
		for _, de := range des {
			fi, err := de.Info()
			if err == nil {
				sn.DirFiles[de.Name()] = fi.Size()
			}
		}
	}
	return sn
}

func runCachePlan(t *testing.T, planAny any, ctl Ctl) *Result {
	p := planAny.(*CachePlan)
	res := newResult()
	dir := newRunDir()
	os.Chdir(dir)
	os.MkdirAll(filepath.Join(dir, "var"), 0o755)
	defer os.RemoveAll(dir)
	w := &cacheWorld{p: p, dir: dir, res: res}
	for i := 0; i < p.NKeys; i++ {
		w.keys = append(w.keys, cache.FromString(fmt.Sprintf("key-%d-%d", p.KeySalt, i)))
	}
	var snaps []*cacheSnapshot
	bubble(t, res, func() {
		metrics.Global = metrics.NewMetrics()
		s := zzsim.New(ctl.Seed, racePol(p.Pol))
		if ctl.Replay != nil {
			s.SetReplay(ctl.Replay, ctl.Guided)
		}
		w.sim = s
		s.Attach()
		defer s.Detach()
		// "the counters never go negative": not only at the checkpoints, at every step of the schedule
		negSeen := ""
		s.OnStep = func(step int) {
			if negSeen != "" || w.c == nil {
				return
			}
			if b, n := metrics.Global.Cache.BytesCached.Get(), metrics.Global.Cache.CacheEntries.Get(); b < 0 || n < 0 {
				negSeen = fmt.Sprintf("reported bytes %d, entries %d at step %d", b, n, step)
			}
		}
		defer func() {
			if negSeen != "" {
				res.violate("C12.c", p.Backend+" negative-counter in-passing", "%s [%s]", negSeen, opSig(p))
			}
		}()
		s.Exempt()
		cfg := config.NewDefault()
		cfg.Cache.MaxCacheSize.Stage(bytesize.ByteSize(p.MaxSize))
		cfg.Cache.MaxCacheSize.CommitStaged()
		cfg.Cache.CleanupInterval.Stage(duration.Duration(time.Duration(p.IntervalMs) * time.Millisecond))
		cfg.Cache.CleanupInterval.CommitStaged()
		w.cfg = cfg
		ctx, cancel := context.WithCancel(context.Background())
		interval := time.Duration(p.IntervalMs) * time.Millisecond
		if p.Backend == "file" {
			w.c = cache.NewFileCache[CMeta](cfg, filepath.Join(dir, "cache"), p.MaxSize, interval, p.Shards, ctx)
		} else {
			w.c = cache.NewMemoryCache[CMeta](cfg, 75, p.MaxSize, interval, p.Shards, ctx)
		}
		s.Unexempt()

		actorNames := []string{}
		var opMu sync.Mutex
		opStart := map[int][3]int{} // actor -> {op index, releases at its start, 1 while it runs}
		for a := range p.Actors {
			a := a
			name := fmt.Sprintf("actor:%d", a)
			actorNames = append(actorNames, name)
			s.Spawn(name, func() {
				for i, op := range p.Actors[a] {
					opMu.Lock()
					opStart[a] = [3]int{i, s.TaskReleases(name), 1}
					opMu.Unlock()
					w.exec(a, i, op)
					opMu.Lock()
					opStart[a] = [3]int{}
					opMu.Unlock()
				}
			})
		}
		// C14 "every cache operation completes": an operation that has been given the processor a
		// thousand times and more without returning is not waiting for anybody, it does not end (the
		// longest operation of the unchanged code takes a few dozen turns)
		checkEndless := func() {
			opMu.Lock()
			defer opMu.Unlock()
			for a, st := range opStart {
				name := fmt.Sprintf("actor:%d", a)
				if st[2] == 1 && !s.TaskDone(name) {
					if turns := s.TaskReleases(name) - st[1]; turns > 1000 && p.Actors[a][st[0]].Kind != "wait" {
						res.violate("C14.b", "operation-does-not-end: "+p.Actors[a][st[0]].Kind, "%s of actor %d has had the processor %d times since it began and has not returned [%s]", p.Actors[a][st[0]].Kind, a, turns, opSig(p))
					}
				}
			}
		}
		actorsDone := func() bool {
			for _, n := range actorNames {
				if !s.TaskDone(n) {
					return false
				}
			}
			return !s.AnyGoParked()
		}
		crashed := false
		if p.CrashStep > 0 {
			end := s.Run(func() bool { return actorsDone() || s.Steps >= p.CrashStep })
			if end == "" && !actorsDone() && !w.destr && p.Backend == "file" {
				// the process dies here: every task stops where it is (deferred unlocks run, nothing
				// else), in-memory state is gone, only the directory survives; then a new process
				// opens the same directory
				crashed = true
				res.fault("crash_restart")
				s.KillAll(nil)
				cancel()
				synctest.Wait()
				cache.VerifDrainIntervalChan(w.c)
				before, _ := os.ReadDir(filepath.Join(dir, "cache"))
				if len(before) > 0 {
					res.probe("crash_left_files_behind")
				}
				metrics.Global = metrics.NewMetrics()
				ctx2, cancel2 := context.WithCancel(context.Background())
				defer cancel2()
				s.Exempt()
				w.c = cache.NewFileCache[CMeta](cfg, filepath.Join(dir, "cache"), p.MaxSize, interval, p.Shards, ctx2)
				s.Unexempt()
				w.hist = nil
				s.Spawn("check:restart", func() { snaps = append(snaps, w.snapshot()) })
				end = s.Run(func() bool { return s.TaskDone("check:restart") })
				if end == "" && len(snaps) == 1 {
					sn := snaps[0]
					if sn.Reported != 0 || sn.Entries != 0 || sn.Internal != 0 || sn.ActualN != 0 || len(sn.DirFiles) != 0 {
						res.violate("C12.c", "file dirty-after-restart", "after abandoning the cache at step %d and reopening its directory: reported bytes %d, entries %d, internal size %d, retrievable entries %d, files in the directory %d (all must be 0) [%s]", p.CrashStep, sn.Reported, sn.Entries, sn.Internal, sn.ActualN, len(sn.DirFiles), opSig(p))
					}
				}
				snaps = nil
				finishSched(res, s, end)
			}
		}
		end := ""
		if !crashed {
			end = s.Run(actorsDone)
		}
		if !crashed && end == "" && !w.destr {
			s.SetAdvanceP(0)
			s.Spawn("check:0", func() { snaps = append(snaps, w.snapshot()) })
			end = s.Run(func() bool { return s.TaskDone("check:0") })
			if end == "" && p.SettleTick {
				s.Spawn("settle", func() {
					s.WaitUntil("harness:settle", time.Now().Add(2*cache.VerifInterval(w.c)+time.Millisecond))
				})
				end = s.Run(func() bool { return s.TaskDone("settle") && !s.AnyGoParked() })
				if end == "" {
					s.Spawn("check:1", func() { snaps = append(snaps, w.snapshot()) })
					end = s.Run(func() bool { return s.TaskDone("check:1") })
				}
			}
		}
		if !crashed {
			finishSched(res, s, end)
		}
		if end == "stuck" {
			res.violate("C14.a", "stuck", "no task can make progress: %s", s.Stuck)
		}
		for _, pm := range s.Panics {
			res.violate("C16.b", "panic", "task panicked: %s", pm)
		}
		checkEndless()
		if bl := blockedHandlers(s); len(bl) > 0 && end != "steps" {
			res.violate("C14.c", p.Backend+" notification-handler-left-blocked", "%d handler(s) of an interval change are blocked for good: %s [%s]", len(bl), strings.Join(bl, ", "), opSig(p))
		}
		// teardown
		cancel()
		if !w.destr {
			w.c.Destroy()
		}
		// every parked task is terminated at its yield point: a task released in pass-through mode
		// while it waits for a lock that was leaked would block on the real mutex for ever
		s.DrainKillOnPark() // also what arrives at a yield point later: an operation that loops (sleeping in between) never parks at this moment
		for i := 0; i < 20; i++ {
			synctest.Wait()
			n := cache.VerifDrainIntervalChan(w.c)
			if n == 0 {
				break
			}
			if i > 0 {
				// after the channel had been emptied once, more arrived: senders had been waiting on
				// it, i.e. notification handlers of a cache that has been stopped were left blocked
				res.Probes["notifier_left_blocked_after_stop"] += n
				res.violate("C14.c", p.Backend+" notification-handler-left-blocked-after-stop", "%d interval-change handler(s) were still blocked on the stopped cleanup task's channel after the cache had been destroyed [%s]", n, opSig(p))
			}
		}
		if end == "steps" {
			// something may be looping with sleeps in between: let the clock run so that it comes to
			// a yield point, where it is terminated (the bubble cannot end with a sleeper in it)
			for i := 0; i < 50; i++ {
				time.Sleep(10 * time.Millisecond)
				synctest.Wait()
			}
		}
	})
	if res.Infra != "" {
		return res
	}
	judgeCache(w, res, snaps)
	return res
}

// ---------------------------------------------------------------------------
// oracles

func opSig(p *CachePlan) string {
	var parts []string
	for _, ops := range p.Actors {
		var a []string
		for _, op := range ops {
			s := op.Kind
			switch op.Kind {
			case "put":
				s += fmt.Sprintf("(k%d", op.Key)
				if op.Empty {
					s += ",empty"
				}
				if op.FailAt > 0 {
					s += ",srcfail"
				}
				if op.DiskFault != "" {
					s += "," + op.DiskFault
				}
				s += ")"
			case "get", "del", "upd", "meta":
				s += fmt.Sprintf("(k%d)", op.Key)
				if op.DiskFault != "" {
					s = strings.TrimSuffix(s, ")") + "," + op.DiskFault + ")"
				}
			}
			a = append(a, s)
		}
		parts = append(parts, strings.Join(a, " "))
	}
	return p.Backend + ": " + strings.Join(parts, " || ")
}

func judgeCache(w *cacheWorld, res *Result, snaps []*cacheSnapshot) {
	p := w.p
	// successful puts per key
	okPut := map[int]map[int]int{} // key -> ver -> size
	anyPut := map[int]map[int]*cev{}
	for _, e := range w.hist {
		if e.Op.Kind != "put" {
			continue
		}
		if anyPut[e.Op.Key] == nil {
			anyPut[e.Op.Key] = map[int]*cev{}
			okPut[e.Op.Key] = map[int]int{}
		}
		anyPut[e.Op.Key][e.Op.Ver] = e
		if e.Done && e.Err == nil {
			okPut[e.Op.Key][e.Op.Ver] = e.Op.Size
			if e.Op.Empty {
				okPut[e.Op.Key][e.Op.Ver] = 0
			}
		}
	}
	sig := opSig(p)

	// probes: overlap of a reader with a store/delete of the same key
	for _, g := range w.hist {
		if g.Op.Kind != "get" || !g.Found {
			continue
		}
		for _, o := range w.hist {
			if o == g || o.Op.Key != g.Op.Key || !o.Done {
				continue
			}
			if o.Call > g.Call && o.Ret < g.Ret {
				switch o.Op.Kind {
				case "put":
					if o.Err == nil {
						res.Probes["overwrite_while_reader_open"]++
					} else {
						res.Probes["failed_store_while_reader_open"]++
					}
					res.Nontrivial = true
				case "del":
					res.Probes["delete_while_reader_open"]++
					res.Nontrivial = true
				}
			}
		}
	}

	// C01.a / C01.b on every completed read
	for _, e := range w.hist {
		if e.Op.Kind != "get" || !e.Done || !e.Found {
			continue
		}
		k := e.Op.Key
		if e.ReadErr != nil {
			res.violate("C01.a", fmt.Sprintf("%s read-error", p.Backend), "read of k%d failed after %d bytes: %v [%s]", k, len(e.Got), e.ReadErr, sig)
			continue
		}
		matched := -1
		// tiny bodies of different versions can coincide: prefer the version the metadata names
		if size, ok := okPut[k][e.MetaObj0.V]; ok && e.MetaObj0.K == k && len(e.Got) == size && bodyEquals(e.Got, k, e.MetaObj0.V) {
			matched = e.MetaObj0.V
		}
		for _, v := range sortedIntKeys(okPut[k]) {
			size := okPut[k][v]
			if matched >= 0 {
				break
			}
			if len(e.Got) == size && bodyEquals(e.Got, k, v) {
				matched = v
				break
			}
		}
		if matched < 0 {
			// describe what it is instead
			desc := "no stored version"
			for _, v := range sortedIntKeys(anyPut[k]) {
				pe := anyPut[k][v]
				full := body(k, v, pe.Op.Size)
				d := firstDiff(e.Got, full)
				if d == -1 {
					desc = fmt.Sprintf("equals version %d whose store did not succeed", v)
				} else if d > 0 && d >= len(e.Got) {
					desc = fmt.Sprintf("truncated version %d (%d of %d bytes)", v, len(e.Got), pe.Op.Size)
				} else if d > 0 && desc == "no stored version" {
					desc = fmt.Sprintf("starts as version %d, differs at byte %d of %d", v, d, len(e.Got))
				}
			}
			res.violate("C01.a", fmt.Sprintf("%s torn-read", p.Backend), "Get(k%d) delivered %d bytes that are not a complete stored body: %s [%s]", k, len(e.Got), desc, sig)
			continue
		}
		if e.MetaSize0 != int64(len(e.Got)) || e.MetaObj0 != (CMeta{k, matched}) {
			res.violate("C01.b", fmt.Sprintf("%s mispaired-at-get", p.Backend), "Get(k%d) body is version %d (%d bytes) but metadata says version %d, size %d [%s]", k, matched, len(e.Got), e.MetaObj0.V, e.MetaSize0, sig)
		} else if e.MetaSize1 != int64(len(e.Got)) || e.MetaObj1 != (CMeta{k, matched}) {
			res.violate("C01.b", fmt.Sprintf("%s mispaired-after-read", p.Backend), "Get(k%d) body is version %d (%d bytes) but metadata after the read says version %d, size %d [%s]", k, matched, len(e.Got), e.MetaObj1.V, e.MetaSize1, sig)
		}
	}

	// C01.c: per-key linearizability (janitor inert families only)
	if p.Family == "lin" || p.Family == "linfault" {
		checkLinearizable(w, res, okPut, sig)
	}

	// C13.e (overwrite-in-window family): a cleanup cycle never removes a fresh entry
	if p.Family == "expwin" {
		for ci, sn := range snaps {
			for k := range w.keys {
				var last *cev
				for _, e := range w.hist {
					if e.Op.Key == k && e.Op.Kind == "put" && e.Done && e.Err == nil && (last == nil || e.Ret > last.Ret) {
						last = e
					}
				}
				if last == nil || last.Op.TTLMs < 1000000 {
					continue
				}
				res.Evals++
				if _, ok := sn.Present[k]; !ok {
					res.violate("C13.e", p.Backend+" fresh-overwrite-removed-by-cleanup", "k%d was stored again with a long lifetime (version %d, after its earlier version had expired) and the cache is far below its limit, but at checkpoint %d it is gone: a cleanup cycle removed a fresh entry [%s]", k, last.Op.Ver, ci, sig)
				}
			}
		}
		if metrics.Global.Cache.CleanupRuns.Get() > 0 {
			res.Probes["cleanup_cycles"] += int(metrics.Global.Cache.CleanupRuns.Get())
		}
		res.Nontrivial = true
		return
	}

	// C12 at the checkpoints
	for ci, sn := range snaps {
		where := "quiescent"
		if ci == 1 {
			where = "after-two-cycles"
		}
		if len(sn.ReadErrors) > 0 {
			res.violate("C12.a", p.Backend+" unreadable-entry "+where, "entries the cache lists cannot be read: %v [%s]", sn.ReadErrors, sig)
		}
		lostNote := ""
		if sn.LostN > 0 {
			lostNote = fmt.Sprintf(" plus %d bytes of %d listed entries whose file was lost", sn.LostB, sn.LostN)
			res.Probes["lost_file_still_listed"]++
		}
		if sn.Reported != sn.ActualB+sn.LostB {
			res.violate("C12.a", p.Backend+" reported-bytes "+where, "reported size %d != %d bytes actually retrievable%s (internal counter %d) [%s]", sn.Reported, sn.ActualB, lostNote, sn.Internal, sig)
		}
		if sn.Internal != sn.ActualB+sn.LostB {
			res.violate("C12.a", p.Backend+" internal-bytes "+where, "size used for eviction %d != %d bytes actually retrievable%s [%s]", sn.Internal, sn.ActualB, lostNote, sig)
		}
		if sn.Entries != int64(sn.ActualN+sn.LostN) {
			res.violate("C12.a", p.Backend+" reported-entries "+where, "reported entry count %d != %d entries actually retrievable%s [%s]", sn.Entries, sn.ActualN, lostNote, sig)
		}
		if sn.MetaSum != sn.ActualB {
			res.violate("C12.a", p.Backend+" metadata-size "+where, "sum of Metadata.Size %d != %d bytes retrievable [%s]", sn.MetaSum, sn.ActualB, sig)
		}
		if sn.Reported < 0 || sn.Entries < 0 || sn.Internal < 0 {
			res.violate("C12.c", p.Backend+" negative-counter "+where, "counters negative: bytes %d entries %d internal %d [%s]", sn.Reported, sn.Entries, sn.Internal, sig)
		}
		if p.Backend == "file" {
			exp := map[string]int64{}
			for k, n := range sn.Present {
				exp[w.key(k).Hex] = int64(n)
			}
			var diffs []string
			for name, sz := range sn.DirFiles {
				if e, ok := exp[name]; !ok {
					diffs = append(diffs, fmt.Sprintf("stray file %s.. (%d bytes)", name[:8], sz))
				} else if e != sz {
					diffs = append(diffs, fmt.Sprintf("file %s.. has %d bytes, entry has %d", name[:8], sz, e))
				}
			}
			for name := range exp {
				if _, ok := sn.DirFiles[name]; !ok {
					diffs = append(diffs, fmt.Sprintf("missing file %s..", name[:8]))
				}
			}
			if len(diffs) > 0 {
				sort.Strings(diffs)
				res.violate("C12.b", "file directory-mismatch "+where, "cache directory differs from retrievable entries: %v [%s]", diffs, sig)
			}
		}
		res.Evals++
	}
	for _, e := range w.hist {
		if e.Op.Kind == "put" && e.Done && e.Err == nil {
			if len(okPut[e.Op.Key]) > 1 {
				res.Probes["overwrite_live_key"]++
			}
		}
		if e.Op.Kind == "put" && e.Done && e.Err != nil {
			res.Probes["failed_store"]++
		}
		if e.Op.Kind == "destroy" {
			// "stopping the cache never blocks": Destroy may take (briefly held) locks, so it can span
			// several scheduler steps; what must not happen is that it never returns
			if !e.Done {
				res.violate("C14.c", "destroy-never-returned", "Destroy was invoked at step %d and had not returned when the run ended [%s]", e.CallStep, sig)
			} else {
				res.Probes["destroy_returned"]++
			}
		}
	}
	if metrics.Global.Cache.CacheEvictions.Get() > 0 {
		res.Probes["evictions"] += int(metrics.Global.Cache.CacheEvictions.Get())
	}
	if metrics.Global.Cache.CleanupRuns.Get() > 0 {
		res.Probes["cleanup_cycles"] += int(metrics.Global.Cache.CleanupRuns.Get())
	}
	if len(res.Probes) > 0 {
		res.Nontrivial = true
	}
}

func sortedIntKeys[V any](m map[int]V) []int {
	ks := make([]int, 0, len(m))
	for k := range m {
		ks = append(ks, k)
	}
	sort.Ints(ks)
	return ks
}

// --- porcupine model: one register per key -----------------------------------

type linIn struct {
	Kind string
	Ver  int
}
type linOut struct {
	OK      bool // put/del succeeded; get found
	Ver     int  // get: version observed (-1: unattributable)
	Faulted bool // put failed because of an injected fault
}

func checkLinearizable(w *cacheWorld, res *Result, okPut map[int]map[int]int, sig string) {
	byKey := map[int][]porcupine.Operation{}
	for _, e := range w.hist {
		if !e.Done {
			continue
		}
		k := e.Op.Key
		switch e.Op.Kind {
		case "put":
			out := linOut{OK: e.Err == nil}
			if e.Err != nil {
				out.Faulted = true
			}
			byKey[k] = append(byKey[k], porcupine.Operation{ClientId: e.Actor, Input: linIn{"put", e.Op.Ver}, Call: e.Call, Output: out, Return: e.Ret})
		case "del":
			byKey[k] = append(byKey[k], porcupine.Operation{ClientId: e.Actor, Input: linIn{"del", 0}, Call: e.Call, Output: linOut{OK: e.Err == nil}, Return: e.Ret})
		case "get":
			out := linOut{OK: e.Found, Ver: -1}
			if e.Found {
				// version is taken from the metadata sampled at Get return, which is
				// what identifies the entry Get handed out (body content is C01.a's job)
				out.Ver = e.MetaObj0.V
			} else if e.Err != nil && !errors.Is(e.Err, cache.ErrCacheEntryNotFound) {
				continue // an error (not "not found") carries no information
			}
			byKey[k] = append(byKey[k], porcupine.Operation{ClientId: e.Actor, Input: linIn{"get", 0}, Call: e.Call, Output: out, Return: e.Ret})
		}
	}
	model := porcupine.NondeterministicModel{
		Init: func() []interface{} { return []interface{}{0} },
		Step: func(state, input, output interface{}) []interface{} {
			st := state.(int)
			in := input.(linIn)
			out := output.(linOut)
			switch in.Kind {
			case "put":
				if out.OK {
					return []interface{}{in.Ver}
				}
				// failed store: key unchanged or absent, never something else
				return []interface{}{st, 0}
			case "del":
				if out.OK {
					// deleting an absent key may or may not report an error (the
					// interface does not say); afterwards the key is absent
					return []interface{}{0}
				}
				if st != 0 {
					return nil
				}
				return []interface{}{0}
			case "get":
				if !out.OK {
					if st == 0 {
						return []interface{}{0}
					}
					return nil
				}
				if st == out.Ver && st != 0 {
					return []interface{}{st}
				}
				return nil
			}
			return nil
		},
	}
	m := model.ToModel()
	for _, k := range sortedIntKeys(byKey) {
		ops := byKey[k]
		if len(ops) > 40 {
			res.Notes = append(res.Notes, "history too long for porcupine")
			continue
		}
		r := porcupine.CheckOperationsTimeout(m, ops, 20*time.Second)
		res.Evals++
		switch r {
		case porcupine.Illegal:
			var hs []string
			for _, o := range ops {
				in := o.Input.(linIn)
				out := o.Output.(linOut)
				hs = append(hs, fmt.Sprintf("a%d:%s(v%d)->ok=%v,v%d@[%d,%d]", o.ClientId, in.Kind, in.Ver, out.OK, out.Ver, o.Call, o.Return))
			}
			res.violate("C01.c", w.p.Backend+" not-linearizable", "history of k%d is not linearizable against a register: %s [%s]", k, strings.Join(hs, " "), sig)
		case porcupine.Unknown:
			res.Notes = append(res.Notes, "porcupine timeout")
		}
	}
}

// ---------------------------------------------------------------------------
// generators

var sizePalette = []int{1, 10, 300, 4096, 32769, 100000}

func genPolicy(r *rand.Rand, advance bool) zzsim.Policy {
	pol := zzsim.Policy{}
	switch r.IntN(6) {
	case 0, 1:
		pol.Kind = "uniform"
	case 2, 3, 4:
		pol.Kind = "sticky"
		pol.SwitchP = []float64{0.02, 0.1, 0.3}[r.IntN(3)]
	default:
		pol.Kind = "pct"
		pol.PCTDepth = 1 + r.IntN(3)
	}
	switch r.IntN(4) {
	case 0:
		pol.Mute = "R6,R7"
	case 1:
		pol.Mute = "R6"
	}
	pol.MapPerm = r.IntN(2) == 0
	if r.IntN(5) == 0 {
		// hold one asynchronously started task (a change notification, a janitor cycle) back from
		// one of its first steps on, until nothing else can run
		pol.DelayTask = 1 + r.IntN(8)
		pol.DelayAt = 1 + r.IntN(3)
	}
	if advance {
		pol.AdvanceP = []float64{0, 0.02, 0.08}[r.IntN(3)]
		pol.AdvancePal = []int64{int64(time.Millisecond), int64(50 * time.Millisecond), int64(time.Second), int64(10 * time.Second)}
	}
	return pol
}

func genCachePlan(r *rand.Rand, family string) *CachePlan {
	p := &CachePlan{Family: family}
	p.Backend = []string{"memory", "file"}[r.IntN(2)]
	p.Shards = []int{1, 2, 3, 16}[r.IntN(4)]
	p.NKeys = 1 + r.IntN(3)
	p.KeySalt = r.IntN(1000)
	p.Pol = genPolicy(r, family != "lin" && family != "linfault")
	nActors := 2 + r.IntN(3)
	maxOps := 3 + r.IntN(5)
	if family == "cntdisk" {
		// disk conditions (a squatting directory, a /dev/full symlink) are visible to
		// every operation, so they are injected into sequential histories only
		p.Backend = "file"
		nActors = 1
		maxOps = 4 + r.IntN(6)
	}
	inert := family == "lin" || family == "linfault"
	if inert {
		p.MaxSize = 1 << 40
		p.IntervalMs = int64(1000 * time.Hour / time.Millisecond)
	} else {
		switch family {
		case "cnt", "cntdisk":
			p.MaxSize = []int64{1 << 40, 250000, 120000, 40000}[r.IntN(4)]
			p.IntervalMs = []int64{1, 50, 1000, 3600000}[r.IntN(4)]
			p.SettleTick = r.IntN(2) == 0 && p.IntervalMs <= 1000
		case "stress":
			p.MaxSize = []int64{1 << 40, 250000, 120000, 40000, 5000}[r.IntN(5)]
			p.IntervalMs = []int64{1, 20, 500}[r.IntN(3)]
		}
	}
	ver := 0
	for a := 0; a < nActors; a++ {
		n := 1 + r.IntN(maxOps)
		var ops []COp
		for i := 0; i < n; i++ {
			ver++
			op := COp{Key: r.IntN(p.NKeys)}
			x := r.IntN(100)
			switch {
			case x < 40:
				op.Kind = "put"
				op.Ver = ver
				op.Size = sizePalette[r.IntN(len(sizePalette))]
				if r.IntN(2) == 0 {
					op.Chunk = []int{1000, 4096, 20000, 32768}[r.IntN(4)]
					if op.Size/op.Chunk > 12 {
						op.Chunk = op.Size / 12
					}
				}
				op.TTLMs = int64(100 * time.Hour / time.Millisecond)
				if !inert {
					op.TTLMs = []int64{1, 30, 2000, 360000000}[r.IntN(4)]
				}
				if family != "lin" {
					f := r.IntN(100)
					switch {
					case f < 10:
						op.FailAt = 1 + r.IntN(op.Size)
					case f < 16:
						op.Empty = true
					case f < 40 && family == "cntdisk":
						op.DiskFault = []string{"squat", "fsize"}[r.IntN(2)]
						op.DiskAt = 1 + r.IntN(op.Size)
					}
				}
			case x < 75:
				op.Kind = "get"
				if r.IntN(2) == 0 {
					op.RChunk = []int{7, 512, 4096, 32768}[r.IntN(4)]
					op.ReadAt = r.IntN(3) == 0
				}
				if family == "cntdisk" && r.IntN(5) == 0 {
					op.DiskFault = "vanish"
				}
			case x < 85:
				op.Kind = "del"
				if family == "cntdisk" && r.IntN(4) == 0 {
					// the entry's file is lost (a disk fault, an operator tidying up) before the entry is deleted
					op.DiskFault = "vanish"
				}
			case x < 90:
				op.Kind = "upd"
				op.TTLMs = int64(100 * time.Hour / time.Millisecond)
				if !inert {
					op.TTLMs = []int64{1, 2000, 360000000}[r.IntN(3)]
				}
			case x < 93:
				op.Kind = "meta"
			default:
				if inert {
					op.Kind = "get"
				} else {
					switch r.IntN(4) {
					case 0:
						op.Kind = "wait"
						op.WaitMs = []int64{1, 40, 2500}[r.IntN(3)]
					case 1:
						op.Kind = "setmax"
						op.Val = []int64{5000, 40000, 120000, 1 << 40}[r.IntN(4)]
						if family == "stress" && r.IntN(2) == 0 {
							op.Burst = 2 + r.IntN(2) // several limit changes right behind one another
						}
					case 2:
						op.Kind = "setint"
						op.Val = []int64{1, 20, 500, 60000}[r.IntN(4)]
						if family == "stress" && r.IntN(2) == 0 {
							op.Burst = 2 + r.IntN(3) // several interval changes right behind one another
						}
					default:
						op.Kind = "wait"
						op.WaitMs = 1
					}
				}
			}
			// keep reader yields bounded
			if op.Kind == "get" && op.RChunk > 0 && op.RChunk < 4096 {
				// small chunks only make sense on small bodies; large bodies get >= size/16
			}
			ops = append(ops, op)
		}
		p.Actors = append(p.Actors, ops)
	}
	// keep the number of janitor cycles per run bounded
	for a := range p.Actors {
		for i := range p.Actors[a] {
			if op := &p.Actors[a][i]; op.Kind == "wait" && op.WaitMs > 30*p.IntervalMs {
				op.WaitMs = 30 * p.IntervalMs
			}
		}
	}
	if family == "cnt" && p.Backend == "file" && r.IntN(4) == 0 {
		p.CrashStep = 5 + r.IntN(150)
	}
	if family == "stress" && r.IntN(4) == 0 {
		a := r.IntN(len(p.Actors))
		p.Actors[a] = append(p.Actors[a], COp{Kind: "destroy"})
	}
	p.Pol.MaxSteps = 6000
	return p
}

// genExpWinPlan: every actor owns one key, stores it with a short lifetime, waits until it
// has expired and stores it again with a long one, while the janitor ticks at about the
// same instants: the overwrite can land between the janitor's expiry scan and its removal.
func genExpWinPlan(r *rand.Rand) *CachePlan {
	p := &CachePlan{Family: "expwin"}
	p.Backend = []string{"memory", "file"}[r.IntN(2)]
	p.Shards = []int{1, 2, 16}[r.IntN(3)]
	p.NKeys = 1 + r.IntN(3)
	p.KeySalt = r.IntN(1000)
	p.MaxSize = 1 << 40
	p.IntervalMs = []int64{10, 20, 50}[r.IntN(3)]
	p.Pol = genPolicy(r, false)
	p.Pol.Mute = []string{"", "R6", "R7"}[r.IntN(3)]
	p.Pol.MaxSteps = 8000
	ver := 0
	for a := 0; a < p.NKeys; a++ {
		var ops []COp
		rounds := 1 + r.IntN(3)
		for i := 0; i < rounds; i++ {
			ver++
			ops = append(ops, COp{Kind: "put", Key: a, Ver: ver, Size: []int{10, 300, 5000}[r.IntN(3)], TTLMs: 1 + int64(r.IntN(5))})
			// wake up close to a tick boundary, after the short lifetime has passed
			ops = append(ops, COp{Kind: "wait", WaitMs: p.IntervalMs*int64(1+r.IntN(2)) - int64(r.IntN(3))})
			ver++
			ops = append(ops, COp{Kind: "put", Key: a, Ver: ver, Size: []int{10, 300, 5000}[r.IntN(3)], TTLMs: 360000000})
			ops = append(ops, COp{Kind: "wait", WaitMs: int64(r.IntN(int(p.IntervalMs)))})
		}
		p.Actors = append(p.Actors, ops)
	}
	p.SettleTick = true
	return p
}

// cacheEnumOps: the operation alphabet of the bounded-exhaustive sequential family (C12).
var cacheEnumOps = []COp{
	{Kind: "put", Key: 0, Size: 10, TTLMs: 360000000},
	{Kind: "put", Key: 0, Size: 3000, TTLMs: 360000000},
	{Kind: "put", Key: 1, Size: 700, TTLMs: 360000000},
	{Kind: "put", Key: 0, Size: 500, TTLMs: 360000000, FailAt: 200},
	{Kind: "put", Key: 0, Size: 500, TTLMs: 360000000, Empty: true},
	{Kind: "del", Key: 0},
	{Kind: "get", Key: 0},
	{Kind: "upd", Key: 0, TTLMs: 1},
	{Kind: "put", Key: 1, Size: 400, TTLMs: 5}, // expires before the next tick
	{Kind: "wait", WaitMs: 60},                 // lets a janitor cycle run
}

// genCacheEnumPlan enumerates every operation sequence up to the tier's depth, by run index.
func genCacheEnumPlan(tier string) *CachePlan {
	idx := int(currentSeed&0xffffffff) / 2 // the scenario rotation uses the lowest bit
	depth := 3
	if tier == "thorough" {
		depth = 5
	}
	n := len(cacheEnumOps)
	total := 0
	pw := 1
	for d := 1; d <= depth; d++ {
		pw *= n
		total += pw
	}
	p := &CachePlan{Family: "cnt", Backend: []string{"memory", "file"}[idx%2], Shards: 2, NKeys: 2, KeySalt: 7, MaxSize: 1 << 40, IntervalMs: 50, SettleTick: true}
	p.Pol = zzsim.Policy{Kind: "sticky", SwitchP: 0.1, Mute: "R6,R7", MaxSteps: 6000}
	k := (idx / 2) % total
	d, cnt := 1, n
	for k >= cnt {
		k -= cnt
		cnt *= n
		d++
	}
	var ops []COp
	for i := 0; i < d; i++ {
		op := cacheEnumOps[k%n]
		k /= n
		if op.Kind == "put" {
			op.Ver = i + 1
		}
		ops = append(ops, op)
	}
	p.Actors = [][]COp{ops}
	return p
}

func shrinkCachePlan(planAny any) []any {
	p := planAny.(*CachePlan)
	var out []any
	clone := func() *CachePlan {
		q := *p
		q.Actors = make([][]COp, len(p.Actors))
		for i := range p.Actors {
			q.Actors[i] = append([]COp{}, p.Actors[i]...)
		}
		return &q
	}
	// drop an actor
	for a := range p.Actors {
		if len(p.Actors) > 1 {
			q := clone()
			q.Actors = append(q.Actors[:a], q.Actors[a+1:]...)
			out = append(out, q)
		}
	}
	// drop an op
	for a := range p.Actors {
		for i := range p.Actors[a] {
			q := clone()
			q.Actors[a] = append(q.Actors[a][:i], q.Actors[a][i+1:]...)
			out = append(out, q)
		}
	}
	// simplify ops
	for a := range p.Actors {
		for i, op := range p.Actors[a] {
			if op.Chunk != 0 || op.RChunk != 0 {
				q := clone()
				q.Actors[a][i].Chunk, q.Actors[a][i].RChunk, q.Actors[a][i].ReadAt = 0, 0, false
				out = append(out, q)
			}
			if op.Kind == "put" && op.Size > 10 {
				q := clone()
				q.Actors[a][i].Size = 10
				if q.Actors[a][i].FailAt > 5 {
					q.Actors[a][i].FailAt = 5
				}
				out = append(out, q)
			}
		}
	}
	if p.SettleTick {
		q := clone()
		q.SettleTick = false
		out = append(out, q)
	}
	if p.Shards != 1 {
		q := clone()
		q.Shards = 1
		out = append(out, q)
	}
	if p.Pol.MapPerm || p.Pol.Mute != "R6,R7" {
		q := clone()
		q.Pol.MapPerm = false
		q.Pol.Mute = "R6,R7"
		out = append(out, q)
	}
	return out
}

func init() {
	register(&Scenario{Name: "cache-enum", Gen: func(r *rand.Rand, tier string) any { return genCacheEnumPlan(tier) }, Decode: decodeInto[CachePlan], Run: runCachePlan, Shrink: shrinkCachePlan})
	register(&Scenario{Name: "cache-expwin", Gen: func(r *rand.Rand, tier string) any { return genExpWinPlan(r) }, Decode: decodeInto[CachePlan], Run: runCachePlan, Shrink: shrinkCachePlan})
	for _, fam := range []string{"lin", "linfault", "cnt", "cntdisk", "stress"} {
		fam := fam
		register(&Scenario{
			Name:   "cache-" + fam,
			Gen:    func(r *rand.Rand, tier string) any { return genCachePlan(r, fam) },
			Decode: decodeInto[CachePlan],
			Run:    runCachePlan,
			Shrink: shrinkCachePlan,
		})
	}
}
