package zzharness

// C10: each exchange on a CONNECT tunnel is isolated and equals plain proxying.
// One request sequence is executed three times from the same plan and clock
// script: all on one kept-alive tunnel (T1), one tunnel per request (Tn), plain (P).

import (
	"bytes"
	"fmt"
	"math/rand/v2"
	"os"
	"sort"
	"strings"
	"testing"
)

func genTunnelPlan(r *rand.Rand) *ProxyPlan {
	p := &ProxyPlan{Family: "tunnel"}
	p.Backend = []string{"memory", "file"}[r.IntN(2)]
	p.Shards = 4
	p.MaxSize = 1 << 40
	p.IntervalMs = 1000 * 3600 * 1000
	p.Transport = "connect"
	p.DefaultAgeS = 60
	p.RetryRange = r.IntN(4) == 0
	p.Pol = seqPolicy()
	nres := 2 + r.IntN(2)
	for i := 0; i < nres; i++ {
		rs := PRes{Host: "origin.test", Path: "/t" + itoa(i), Size: []int{0, 10, 19, 3000, 40000}[r.IntN(5)]}
		rs.CC = [][]string{{"max-age=600"}, {"max-age=2"}, {"no-store"}}[r.IntN(3)]
		rs.ETag = []string{"strong", ""}[r.IntN(2)]
		rs.LastMod = r.IntN(2) == 0
		rs.Status = []int{200, 200, 200, 404, 500, 204, 200, 200}[r.IntN(8)]
		rs.NoLength = r.IntN(2) == 0
		if rs.Status == 204 {
			rs.Size = 0 // a 204 has no content
		}
		rs.RangeMode = []string{"ignore", "ignore", "honor"}[r.IntN(3)]
		rs.Extra = [][2]string{{"X-Res-Tag", "tag-" + itoa(i)}}
		if r.IntN(2) == 0 {
			rs.Extra = append(rs.Extra, [2]string{"X-Only-" + itoa(i), "only-here-" + itoa(i)})
		}
		if r.IntN(3) == 0 {
			rs.Extra = append(rs.Extra, [2]string{"Content-Language", []string{"da", "en", "de"}[i%3]})
		}
		if i > 0 && r.IntN(6) == 0 {
			rs.Host = "down.test" // nobody listens there: the proxy answers 502 itself, without reading the request's content
		}
		if rs.Size > 0 && rs.Host != "down.test" && r.IntN(6) == 0 {
			// the transfer from the origin breaks: once, after the head or somewhere in the body
			if r.IntN(2) == 0 {
				rs.AbortAfterHead = true
			} else if rs.Size > 1 {
				rs.AbortAt = 1 + r.IntN(rs.Size-1)
			}
			rs.AbortN = 1
		}
		p.Res = append(p.Res, rs)
	}
	n := 2 + r.IntN(8)
	var reqs []PReq
	at := int64(0)
	for i := 0; i < n; i++ {
		at += []int64{0, 0, 100, 2500}[r.IntN(4)]
		q := PReq{Res: r.IntN(nres), AtMs: at, SameConn: true}
		q.Method = []string{"GET", "GET", "GET", "GET", "HEAD", "POST"}[r.IntN(6)]
		if q.Method == "POST" {
			q.Body = []int{0, 30}[r.IntN(2)]
		}
		if q.Method == "GET" && r.IntN(8) == 0 {
			q.Body = 30 // unusual but legal: content on a GET request
		}
		if q.Body > 0 && r.IntN(3) == 0 {
			q.ChunkedReq = true
		}
		// (Expect: 100-continue is implemented in the client, PReq.Expect100, and not generated: on a
		// tunnel the proxy sends no interim answer where plain proxying does, the client waits out
		// its second and everything else is equal. Interim answers are outside C10 as built, see
		// DESIGN 10.3a; a repair attempt showed that doing it properly - announcing the close
		// when the content was never asked for - is not a small change.)
		if q.Method == "GET" && r.IntN(3) == 0 {
			q.Range = []string{"bytes=0-4", "bytes=2-", "bytes=-3", "bytes=5-1", "bytes=100000-"}[r.IntN(5)]
		}
		reqs = append(reqs, q)
	}
	// a client that announces "Connection: close" uses a new connection for what follows
	for i := range reqs {
		unreachable := p.Res[reqs[i].Res].Host == "down.test"
		if unreachable && r.IntN(2) == 0 {
			// content the proxy never forwards (nobody listens upstream), on a connection the client
			// is about to give up: it must not be taken for a request
			reqs[i].Method, reqs[i].Body, reqs[i].Range = "POST", 30, ""
			reqs[i].BodyIsRequest = r.IntN(2) == 0
		}
		if r.IntN(10) == 0 || (unreachable && r.IntN(2) == 0) {
			reqs[i].Hdr = append(reqs[i].Hdr, [2]string{"Connection", "close"})
			if i+1 < len(reqs) {
				reqs[i+1].SameConn = false
			}
		}
	}
	// pipelining: runs of body-less requests at the same instant go out in one write (not in plans
	// where a transfer breaks: the tunnel is rightly closed then, and what had been pipelined behind
	// the broken exchange is lost on a shared tunnel but not on tunnels of its own)
	breaks := false
	for _, rs := range p.Res {
		if rs.AbortAfterHead || rs.AbortAt > 0 {
			breaks = true
		}
	}
	for i := 0; i+1 < len(reqs) && !breaks; i++ {
		a, b := reqs[i], reqs[i+1]
		if a.Body == 0 && a.AtMs == b.AtMs && b.SameConn && len(a.Hdr) == 0 && (a.Method == "GET" || a.Method == "HEAD") && r.IntN(3) == 0 {
			reqs[i].PipeNext = true
		}
	}
	p.Clients = [][]PReq{reqs}
	return p
}

func tunnelVariant(p *ProxyPlan, transport string, sameConn bool) *ProxyPlan {
	q := cloneProxyPlan(p)
	q.Transport = transport
	for i := range q.Clients[0] {
		q.Clients[0][i].SameConn = sameConn && p.Clients[0][i].SameConn
	}
	return q
}

var tunnelSkipHdr = map[string]bool{"Content-Length": true, "Transfer-Encoding": true, "Date": true, "Connection": true}

func hdrDiff(a, b map[string][]string) []string {
	var out []string
	names := map[string]bool{}
	for k := range a {
		names[k] = true
	}
	for k := range b {
		names[k] = true
	}
	var ks []string
	for k := range names {
		if !tunnelSkipHdr[k] {
			ks = append(ks, k)
		}
	}
	sort.Strings(ks)
	for _, k := range ks {
		if !eqStrings(a[k], b[k]) {
			out = append(out, k)
		}
	}
	return out
}

func runTunnelPlan(t *testing.T, planAny any, ctl Ctl) *Result {
	p := planAny.(*ProxyPlan)
	sub := Ctl{Seed: ctl.Seed}
	w1, r1 := execProxyPlan(t, tunnelVariant(p, "connect", true), sub)
	if r1.Infra != "" {
		return r1
	}
	wn, rn := execProxyPlan(t, tunnelVariant(p, "connect", false), sub)
	if rn.Infra != "" {
		return rn
	}
	wp, rp := execProxyPlan(t, tunnelVariant(p, "plain", false), sub)
	if rp.Infra != "" {
		return rp
	}
	for _, w := range []*proxyWorld{w1, wn, wp} {
		sort.SliceStable(w.exch, func(i, j int) bool { return w.exch[i].Idx < w.exch[j].Idx })
	}
	if os.Getenv("VERIF_DEBUG") != "" {
		for i, w := range []*proxyWorld{w1, wn, wp} {
			for _, o := range w.olog {
				fmt.Printf("DEBUG world %d origin #%d %s %s range=%q bodylen=%d -> %d\n", i, o.N, o.Method, o.URI, o.Hdr.Get("Range"), o.BodyLen, o.Status)
			}
			for _, e := range w.exch {
				fmt.Printf("DEBUG world %d exch %d %s status=%d complete=%v err=%q sim-resp=%v errlog=%v\n", i, e.Idx, reqDesc(e), e.Status, e.Complete, e.Err, e.Hdr["X-Sim-Resp"], w.errLog)
			}
		}
	}
	res := r1
	res.Steps += rn.Steps + rp.Steps
	res.SimNs += rn.SimNs + rp.SimNs
	judgeServerLog(w1, res)
	judgeServerLog(wn, res)
	judgeServerLog(wp, res)
	if len(w1.exch) != len(wn.exch) || len(wn.exch) != len(wp.exch) {
		res.violate("C10.a", "exchange-count", "T1 has %d exchanges, Tn %d, P %d", len(w1.exch), len(wn.exch), len(wp.exch))
		return res
	}
	pd := fmt.Sprintf("%s retry_invalid=%v", p.Backend, p.RetryRange)
	for i := range w1.exch {
		e1, en, ep := w1.exch[i], wn.exch[i], wp.exch[i]
		res.Evals++
		desc := fmt.Sprintf("exchange %d of %d (%s)", i+1, len(w1.exch), reqDesc(e1))
		prevVals := map[string]bool{}
		for j := 0; j < i; j++ {
			for k, vs := range w1.exch[j].Hdr {
				for _, v := range vs {
					prevVals[k+": "+v] = true
				}
			}
		}
		for _, e := range []*Exch{e1, en, ep} {
			if e.Unsolicited != "" {
				res.violate("C10.a", "unsolicited-bytes-after-the-response", "%s: after the complete answer (%d) to a request that said Connection: close, more arrived on the connection: %q", desc, e.Status, e.Unsolicited)
			}
		}
		// ---- C10.a / C10.c: T1 vs Tn
		switch {
		case e1.Complete != en.Complete:
			res.violate("C10.a", "framing-differs", "%s: complete on shared tunnel=%v (%s), on its own tunnel=%v (%s) [%s]", desc, e1.Complete, e1.Err, en.Complete, en.Err, pd)
		case !e1.Complete:
			// both broken the same way: judged elsewhere (C09/C16)
		default:
			if e1.Status != en.Status {
				res.violate("C10.a", "status-differs", "%s: status %d on the shared tunnel, %d on its own tunnel [%s]", desc, e1.Status, en.Status, pd)
			}
			errorPage := en.Hdr.Get("X-Sim-Resp") == "" && (en.Status == 502 || en.Status == 416 || en.Status == 500)
			if !errorPage {
				for _, k := range hdrDiff(e1.Hdr, en.Hdr) {
					leak := false
					for _, v := range e1.Hdr[k] {
						if prevVals[k+": "+v] && !contains(en.Hdr[k], v) {
							leak = true
						}
					}
					if leak {
						res.violate("C10.c", "header-leaked-from-earlier-exchange: "+hdrClass(k), "%s: %s is %q on the shared tunnel (a value of an earlier exchange), %q on its own tunnel [%s]", desc, k, e1.Hdr[k], en.Hdr[k], pd)
					} else {
						res.violate("C10.a", "header-differs: "+hdrClass(k), "%s: %s is %q on the shared tunnel, %q on its own tunnel [%s]", desc, k, e1.Hdr[k], en.Hdr[k], pd)
					}
				}
				if cl1, cln := e1.Hdr.Get("Content-Length"), en.Hdr.Get("Content-Length"); cl1 != cln && (cl1 != "" && cln != "") {
					res.violate("C10.c", "content-length-differs", "%s: Content-Length %q on the shared tunnel, %q on its own tunnel [%s]", desc, cl1, cln, pd)
				} else if e1.CL != en.CL || !eqStrings(e1.TE, en.TE) {
					res.violate("C10.c", "framing-differs", "%s: declared length %d, transfer coding %v on the shared tunnel; length %d, coding %v on its own tunnel [%s]", desc, e1.CL, e1.TE, en.CL, en.TE, pd)
				}
				if !bytes.Equal(e1.Body, en.Body) {
					res.violate("C10.c", "body-differs", "%s: %d body bytes on the shared tunnel, %d on its own tunnel (first difference at %d) [%s]", desc, len(e1.Body), len(en.Body), firstDiff(e1.Body, en.Body), pd)
				}
			}
		}
		// ---- C10.b: Tn vs P
		if en.Interim != ep.Interim && en.Req.Expect100 {
			res.violate("C10.b", "interim-response-differs-from-plain", "%s: a request with Expect: 100-continue got interim status %d through a tunnel and %d plain before sending its content (0: none within a second) [%s]", desc, en.Interim, ep.Interim, pd)
		}
		if en.Complete && ep.Complete {
			if en.Status != ep.Status {
				res.violate("C10.b", "status-differs-from-plain", "%s: status %d through a tunnel, %d plain [%s]", desc, en.Status, ep.Status, pd)
			}
			errorPage := ep.Hdr.Get("X-Sim-Resp") == "" && (ep.Status == 502 || ep.Status == 416 || ep.Status == 500)
			if !errorPage {
				if label(en) != label(ep) {
					res.violate("C10.b", "cache-label-differs-from-plain", "%s: %q through a tunnel, %q plain [%s]", desc, en.Hdr.Get("Cache-Status"), ep.Hdr.Get("Cache-Status"), pd)
				}
				for _, k := range hdrDiff(en.Hdr, ep.Hdr) {
					res.violate("C10.b", "header-differs-from-plain: "+hdrClass(k), "%s: %s is %q through a tunnel, %q plain [%s]", desc, k, en.Hdr[k], ep.Hdr[k], pd)
				}
				if !bytes.Equal(en.Body, ep.Body) {
					res.violate("C10.b", "body-differs-from-plain", "%s: %d body bytes through a tunnel, %d plain [%s]", desc, len(en.Body), len(ep.Body), pd)
				}
			}
		} else if en.Complete != ep.Complete {
			res.violate("C10.b", "framing-differs-from-plain", "%s: complete through a tunnel=%v (%s), plain=%v (%s) [%s]", desc, en.Complete, en.Err, ep.Complete, ep.Err, pd)
		}
	}
	// origin logs of Tn and P must tell the same story
	if len(wn.olog) != len(wp.olog) {
		res.violate("C10.b", "origin-request-count-differs-from-plain", "origin received %d requests with tunnels, %d plain [%s]", len(wn.olog), len(wp.olog), pd)
	} else {
		for i := range wn.olog {
			a, b := wn.olog[i], wp.olog[i]
			if a.Method != b.Method || a.URI != b.URI || a.Cond != b.Cond || a.Hdr.Get("Range") != b.Hdr.Get("Range") {
				res.violate("C10.b", "origin-request-differs-from-plain", "origin request %d: %s %s cond=%v range=%q with tunnels, %s %s cond=%v range=%q plain [%s]", i, a.Method, a.URI, a.Cond, a.Hdr.Get("Range"), b.Method, b.URI, b.Cond, b.Hdr.Get("Range"), pd)
				break
			}
		}
	}
	if len(w1.exch) >= 3 {
		res.Probes["tunnel_with_3_or_more_exchanges"]++
	}
	res.Nontrivial = true
	return res
}

func contains(vs []string, v string) bool {
	for _, x := range vs {
		if x == v {
			return true
		}
	}
	return false
}

func hdrClass(k string) string {
	if strings.HasPrefix(k, "X-Only-") {
		return "X-Only-N"
	}
	return k
}

func init() {
	register(&Scenario{Name: "tunnel", Gen: func(r *rand.Rand, tier string) any { return genTunnelPlan(r) }, Decode: decodeInto[ProxyPlan], Run: runTunnelPlan, Shrink: shrinkProxyPlan})
}
