package zzharness

// C08: relay fidelity in both directions (inputs only; the simulator is the
// wire-level observer on both sides of the proxy).

import (
	"fmt"
	"math/rand/v2"
	"net/http"
	"sort"
	"strings"
)

var relayTargets = []string{"/p", "/p/a%2Fb", "/p/%41bc", "/p/a;b=c", "/p/sp%20ace?x=1%202&y=%7C", "/p?", "/p?a=1&a=2&b=", "/p/x?q=%3F%26", "/p//double", "/p/trailing/", "/p/~user/file.txt?download"}

var reqE2E = [][2]string{
	{"Accept", "text/html"}, {"accept", "application/json;q=0.9"}, {"Cookie", "a=1"}, {"Cookie", "b=2; c=3"},
	{"X-Multi", "1"}, {"x-multi", "2"}, {"X-MULTI", "3"}, {"X-Custom-Thing", "v w"}, {"Authorization", "Bearer tok"},
	{"Accept-Language", "da, en;q=0.8"}, {"User-Agent", "sim-client/1.0"}, {"Accept-Encoding", "identity"}, {"X-Empty", ""},
	{"Referer", "http://example.test/a?b=c"}, {"Cache-Control", "max-age=0"}, {"Pragma", "no-cache"},
}
var reqHop = [][2]string{
	{"Connection", "keep-alive, X-Hop"}, {"X-Hop", "secret"}, {"Proxy-Connection", "keep-alive"}, {"Keep-Alive", "timeout=5"},
	{"Proxy-Authorization", "Basic eHl6"}, {"TE", "trailers"}, {"Connection", "X-Hop2"}, {"X-Hop2", "also-secret"},
}
var respE2E = [][2]string{
	{"Set-Cookie", "sid=1; Path=/"}, {"Set-Cookie", "pref=x; HttpOnly"}, {"Set-Cookie", "t=3"}, {"Link", "</a>; rel=preload"}, {"Link", "</b>; rel=next"},
	{"Vary", "Accept"}, {"Vary", "Accept-Language"}, {"Warning", `199 - "misc"`}, {"X-Multi", "r1"}, {"X-Multi", "r2"}, {"X-Multi", "r3"},
	{"Server", "sim-origin"}, {"X-Custom-Resp", "a  b"}, {"Content-Language", "da"}, {"Content-Disposition", `attachment; filename="x.bin"`},
	{"Www-Authenticate", `Basic realm="a"`}, {"Www-Authenticate", `Bearer realm="b"`},
}
var respHop = [][2]string{
	{"Connection", "X-Resp-Hop"}, {"X-Resp-Hop", "internal"}, {"Keep-Alive", "timeout=9"}, {"Proxy-Authenticate", `Basic realm="proxy"`},
}

func pickSome(r *rand.Rand, from [][2]string, p float64) [][2]string {
	var out [][2]string
	for _, kv := range from {
		if r.Float64() < p {
			out = append(out, kv)
		}
	}
	return out
}

func genRelayPlan(r *rand.Rand) *ProxyPlan {
	p := &ProxyPlan{Family: "relay"}
	p.Backend = []string{"memory", "file"}[r.IntN(2)]
	p.Shards = 4
	p.MaxSize = 1 << 40
	p.IntervalMs = 1000 * 3600 * 1000
	p.Transport = []string{"plain", "connect"}[r.IntN(2)]
	p.DefaultAgeS = 3600
	p.Pol = seqPolicy()
	// no keep-alive towards the origin (connection reuse is the one thing in net/http's transport
	// whose timing the simulator does not own); responses that nominate headers in Connection are
	// written byte-for-byte by the origin, with or without echoing the "close" it was asked for
	rs := PRes{Host: "origin.test", Path: "/p", Wild: true}
	rs.Size = []int{0, 10, 3000, 100000}[r.IntN(4)]
	rs.Status = []int{200, 200, 200, 201, 203, 204, 301, 302, 307, 400, 403, 404, 410, 500, 503}[r.IntN(15)]
	if rs.Status == 204 {
		rs.Size = 0
	}
	rs.CC = [][]string{{"max-age=600"}, {"no-store"}, nil}[r.IntN(3)]
	rs.ETag = []string{"strong", ""}[r.IntN(2)]
	rs.LastMod = r.IntN(2) == 0
	if rs.LastMod && r.IntN(3) == 0 {
		rs.LastModForm = []string{"rfc850", "asctime", "junk"}[r.IntN(3)]
	}
	rs.NoLength = r.IntN(3) == 0
	if r.IntN(2) == 0 {
		rs.Chunk = 30000
	}
	rs.Extra = append(pickSome(r, respE2E, 0.4), pickSome(r, respHop, 0.35)...)
	rs.NoCloseEcho = r.IntN(2) == 0
	if rs.ETag != "" && r.IntN(8) == 0 {
		rs.Extra = append(rs.Extra, [2]string{"ETag", `"second-tag"`})
	}
	rs.Gzip = r.IntN(3) == 0
	if rs.Status >= 301 && rs.Status <= 307 {
		rs.Extra = append(rs.Extra, [2]string{"Location", "http://origin.test/elsewhere?x=1"})
	}
	p.Res = []PRes{rs}
	var reqs []PReq
	n := 1 + r.IntN(3)
	for i := 0; i < n; i++ {
		q := PReq{Res: 0, Target: relayTargets[r.IntN(len(relayTargets))]}
		q.Method = []string{"GET", "GET", "GET", "HEAD", "POST", "PUT", "PATCH", "DELETE", "OPTIONS"}[r.IntN(9)]
		q.Hdr = append(pickSome(r, reqE2E, 0.35), pickSome(r, reqHop, 0.3)...)
		switch q.Method {
		case "POST", "PUT", "PATCH":
			q.Body = []int{0, 17, 5000, 100000}[r.IntN(4)]
			q.ChunkedReq = r.IntN(3) == 0
		}
		if q.Method != "GET" && q.Method != "HEAD" && r.IntN(3) == 0 {
			// preconditions of a write (lost-update protection): they are the client's end-to-end headers
			q.Hdr = append(q.Hdr, [][2]string{{"If-Match", `"rev-7"`}, {"If-Unmodified-Since", "Sat, 01 Jan 2000 00:00:00 GMT"}, {"If-None-Match", "*"}}[r.IntN(3)])
		}
		if r.IntN(4) == 0 {
			q.ReadChunk = 4096
		}
		if rs.Gzip {
			// who accepts gzip says so; everybody else names no encoding at all or "identity" (above)
			var hdr [][2]string
			for _, kv := range q.Hdr {
				if !strings.EqualFold(kv[0], "Accept-Encoding") {
					hdr = append(hdr, kv)
				}
			}
			switch r.IntN(3) {
			case 0:
				hdr = append(hdr, [2]string{"Accept-Encoding", "gzip"})
			case 1:
				hdr = append(hdr, [2]string{"Accept-Encoding", "identity"})
			}
			q.Hdr = hdr
		}
		reqs = append(reqs, q)
		if q.Method == "GET" && r.IntN(2) == 0 {
			// the same request again: served from the store when the first answer was cacheable
			reqs = append(reqs, q)
		}
	}
	p.Clients = [][]PReq{reqs}
	return p
}

func sortedHeaderNames(h http.Header) []string {
	names := make([]string, 0, len(h))
	for k := range h {
		names = append(names, k)
	}
	sort.Strings(names)
	return names
}

func isHopName(name string, nominated map[string]bool) bool {
	c := http.CanonicalHeaderKey(name)
	return hopByHop[c] || nominated[c]
}

func nominatedBy(h [][2]string) map[string]bool {
	out := map[string]bool{}
	for _, kv := range h {
		if strings.EqualFold(kv[0], "Connection") {
			for _, t := range strings.Split(kv[1], ",") {
				if t = strings.TrimSpace(t); t != "" {
					out[http.CanonicalHeaderKey(t)] = true
				}
			}
		}
	}
	return out
}

func valuesOf(h [][2]string, name string) []string {
	var out []string
	for _, kv := range h {
		if strings.EqualFold(kv[0], name) {
			out = append(out, kv[1])
		}
	}
	return out
}

func eqStrings(a, b []string) bool {
	if len(a) != len(b) {
		return false
	}
	for i := range a {
		if a[i] != b[i] {
			return false
		}
	}
	return true
}

func judgeRelay(w *proxyWorld, res *Result) {
	pd := planDesc(w.p)
	for _, ex := range w.exch {
		if !ex.Sent || ex.Req.Raw != "" {
			continue
		}
		res.Evals++
		desc := fmt.Sprintf("%s %s", ex.Method, ex.Req.Target)
		if !ex.Complete {
			res.violate("C08.a", "no-complete-response", "%s: %s [%s] proxy log: %s | %s", desc, ex.Err, pd, strings.Join(w.errLog, " ; "), strings.Join(w.srvLog, " ; ")+" | simnet: "+strings.Join(w.netNotes, " ;; "))
			continue
		}
		o := w.attrib(ex)
		if o == nil {
			res.violate("C08.a", fmt.Sprintf("unattributable status-%d", ex.Status), "%s: response %d carries no origin response id: an end-to-end header of the origin was dropped or the proxy answered itself [%s]", desc, ex.Status, pd)
			continue
		}
		served := "relayed"
		if l := label(ex); l == "HIT" || l == "REVALIDATED" {
			served = "stored"
			res.Probes["relay_checked_on_hit"]++
		}
		// ---- client side
		if ex.Status != o.Status {
			res.violate("C08.a", fmt.Sprintf("status %d->%d", o.Status, ex.Status), "%s: origin answered %d, client received %d [%s]", desc, o.Status, ex.Status, pd)
		}
		rnom := map[string]bool{}
		for _, v := range o.RespHdr.Values("Connection") {
			for _, t := range strings.Split(v, ",") {
				if t = strings.TrimSpace(t); t != "" {
					rnom[http.CanonicalHeaderKey(t)] = true
				}
			}
		}
		for _, name := range sortedHeaderNames(o.RespHdr) {
			ovals := o.RespHdr[name]
			if isHopName(name, rnom) {
				if cv := ex.Hdr.Values(name); len(cv) > 0 && name != "Connection" {
					how := ""
					if o.RespHdr.Get("X-Sim-Wire-Connection-Close") != "" && rnom[name] {
						how = " (nominated next to 'close' in the origin's Connection header)"
					}
					res.violate("C08.c", "hop-by-hop-response-header-forwarded: "+name+how, "%s: response header %s: %q reached the client [%s]", desc, name, cv, pd)
				}
				continue
			}
			switch name {
			case "X-Sim-Wire-Connection-Close":
				continue
			case "Content-Length", "Date", "Accept-Ranges", "Age", "Via", "Cache-Status", "X-Cache":
				continue // framing / fields the proxy legitimately computes
			}
			cv := ex.Hdr.Values(name)
			if !eqStrings(cv, ovals) {
				cls := "response-header-changed"
				if len(ovals) > 1 {
					cls = "multi-valued-response-header-changed"
				}
				res.violate("C08.a", fmt.Sprintf("%s (%s): %s", cls, served, name), "%s: origin sent %s: %q, client received %q [%s]", desc, name, ovals, cv, pd)
			}
		}
		wantBody := o.RespBody
		if ex.Method == "HEAD" || ex.Status == 204 || ex.Status == 304 {
			wantBody = nil
		}
		if string(ex.Body) != string(wantBody) {
			res.violate("C08.a", "body-changed ("+served+")", "%s: body of %d bytes, origin sent %d bytes (first difference at %d) [%s]", desc, len(ex.Body), len(wantBody), firstDiff(ex.Body, wantBody), pd)
		}
		// ---- origin side: every origin request made for this exchange
		nom := nominatedBy(ex.Req.Hdr)
		for _, c := range w.contacts(ex) {
			if c.Method != ex.Method {
				res.violate("C08.b", "method-changed", "%s: origin received method %s [%s]", desc, c.Method, pd)
			}
			if c.URI != ex.Req.Target {
				res.violate("C08.b", "target-changed: "+targetClass(ex.Req.Target), "client sent %q, origin received %q [%s]", ex.Req.Target, c.URI, pd)
			}
			seen := map[string]bool{}
			for _, kv := range ex.Req.Hdr {
				name := http.CanonicalHeaderKey(kv[0])
				if seen[name] {
					continue
				}
				seen[name] = true
				want := valuesOf(ex.Req.Hdr, name)
				got := c.Hdr.Values(name)
				if isHopName(name, nom) {
					if len(got) > 0 && name != "Connection" && !(name == "Te" && false) {
						res.violate("C08.c", "hop-by-hop-request-header-forwarded: "+name, "%s: request header %s: %q reached the origin [%s]", desc, name, got, pd)
					}
					continue
				}
				if !eqStrings(got, want) {
					res.violate("C08.b", "request-header-changed: "+name, "%s: client sent %s: %q, origin received %q [%s]", desc, name, want, got, pd)
				}
			}
			// fields the client never sent: the proxy may add what a proxy adds (Via, forwarding
			// notes), framing, and its own validators when it revalidates; anything else changes what
			// the origin is asked on the client's behalf
			for _, name := range sortedHeaderNames(c.Hdr) {
				if seen[name] {
					continue
				}
				if name == "Cache-Control" && len(valuesOf(ex.Req.Hdr, "Pragma")) > 0 {
					continue // net/http's request parser (the proxy's and the origin model's) adds it for "Pragma: no-cache"
				}
				switch name {
				case "Via", "Forwarded", "X-Forwarded-For", "X-Forwarded-Host", "X-Forwarded-Proto", "Content-Length", "Transfer-Encoding", "Connection", "If-None-Match", "If-Modified-Since":
					continue
				}
				res.violate("C08.b", "request-header-added: "+name, "%s: origin received %s: %q, which the client did not send [%s]", desc, name, c.Hdr.Values(name), pd)
			}
			wantLen := 0
			switch ex.Method {
			case "POST", "PUT", "PATCH":
				wantLen = ex.Req.Body
			}
			if c.BodyLen != wantLen || (wantLen > 0 && c.BodyHash != hashBytes(body(7777, wantLen, wantLen))) {
				res.violate("C08.b", "request-body-changed", "%s: client sent %d body bytes, origin received %d (content equal: %v) [%s]", desc, wantLen, c.BodyLen, c.BodyHash == hashBytes(body(7777, wantLen, wantLen)), pd)
			}
		}
	}
	res.Nontrivial = true
}

func targetClass(t string) string {
	switch {
	case strings.Contains(t, "%2F"):
		return "encoded-slash"
	case strings.Contains(t, "%41"):
		return "encoded-unreserved"
	case strings.HasSuffix(t, "?"):
		return "empty-query"
	case strings.Contains(t, "//"):
		return "double-slash"
	case strings.Contains(t, "%"):
		return "other-encoding"
	}
	return "plain"
}

func init() {
	register(&Scenario{Name: "relay", Gen: func(r *rand.Rand, tier string) any { return genRelayPlan(r) }, Decode: decodeInto[ProxyPlan], Run: runProxyPlan, Shrink: shrinkProxyPlan})
}
