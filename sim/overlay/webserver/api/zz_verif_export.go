package api

// Handles for the verification harness (scratch copy only; never in /repo).

type VerifRoute struct {
	Method       string
	Path         string
	RequiresAuth bool
}

// VerifRoutes enumerates the registered (method, path) pairs from the endpoint table.
func (api *API) VerifRoutes() []VerifRoute {
	var out []VerifRoute
	for _, e := range api.endpoints {
		for _, m := range e.EndpointMethods() {
			out = append(out, VerifRoute{Method: m.Method, Path: api.basePath + e.Path(), RequiresAuth: m.RequiresAuth})
		}
	}
	return out
}
