package auth

// Handles for the verification harness (scratch copy only; never in /repo).

import (
	"sort"
	"time"

	"reservoir/utils/syncmap"
)

// VerifReset forgets all sessions and the process-global "GC running" flag so that many runs fit in one process.
func VerifReset() {
	sessionStore = syncmap.New[string, *Session]()
	gcRunning = false
}

type VerifSession struct {
	ID        string
	ExpiresAt time.Time
}

func VerifSessions() []VerifSession {
	var out []VerifSession
	for s := range sessionStore.Items() {
		out = append(out, VerifSession{s.ID, s.ExpiresAt})
	}
	sort.Slice(out, func(i, j int) bool { return out[i].ID < out[j].ID })
	return out
}
