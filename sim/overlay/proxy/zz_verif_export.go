package proxy

// Handles for the verification harness (scratch copy only; never in /repo).

import "reservoir/cache"

// VerifCacheDelete removes an entry the way any other cache user could
// (eviction placed by the scheduler into a chosen window).
func (p *Proxy) VerifCacheDelete(key cache.CacheKey) error { return p.cache.Delete(key) }

func (p *Proxy) VerifByteSize() int64 { return cache.VerifByteSize(p.cache) }

func (p *Proxy) VerifDrainIntervalChan() int { return cache.VerifDrainIntervalChan(p.cache) }

// VerifCacheKeys lists the keys currently stored (sorted).
func (p *Proxy) VerifCacheKeys() []cache.CacheKey { return cache.VerifKeys(p.cache) }
