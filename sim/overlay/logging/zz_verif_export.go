package logging

// Handles for the verification harness (scratch copy only; never in /repo).

import (
	"log/slog"
	"reservoir/config"
)

func VerifLevel() slog.Level { return logLevel.Level() }

// VerifReset forgets the process-global initialisation so that many runs fit in one process.
func VerifReset() {
	subs.UnsubscribeAll()
	subs = config.ConfigSubscriber{}
	initialized = false
	if fileLog != nil {
		fileLog.Close() // ends the writer's background goroutine
	}
	fileLog = nil
}
