// Package zzsim is the runtime of the deterministic simulator. It is copied
// into the scratch copy of reservoir (never into /repo). With no scheduler
// attached every function is a pass-through, so the instrumented tree behaves
// like the original one.
package zzsim

import (
	"os"
	"cmp"
	"fmt"
	"iter"
	"math/rand/v2"
	"runtime"
	"slices"
	"sort"
	"strings"
	"sync"
	"sync/atomic"
	"testing/synctest"
	"time"
)

// Progress counts scheduler steps of all runs of this process; the harness watchdog looks at it to
// tell a run that is slow (a loaded machine, a race build) from one that has stopped moving.
var Progress atomic.Int64

type Locker interface {
	Lock()
	Unlock()
	TryLock() bool
}

type RLocker interface {
	RLock()
	RUnlock()
	TryRLock() bool
}

var active atomic.Pointer[Sched]

// Active returns the scheduler attached to this process, or nil.
func Active() *Sched { return active.Load() }

const (
	stRunning = iota
	stParked
	stDone
)

const (
	modeNone = iota
	modeW
	modeR
)

type Task struct {
	Name       string
	Background bool // janitor, notifiers, gc: do not count as progress
	gid        uint64
	state      int
	site       string
	waitLock   any
	waitMode   int
	notBefore  time.Time
	wake       chan struct{}
	kill       bool
	Panic      any
	PanicStack string
	releases   int
	goSeq      int // ordinal among the tasks started by go statements (1-based; 0: not one)
	pendingW   bool      // blocked inside a write Lock (tried it, found it taken)
	firstAcq   time.Time // instant of the first lock acquisition since MarkOp (zero: none yet)
}

type lockState struct {
	writer  *Task
	readers map[*Task]int
	// tasks blocked inside Lock(): sync.RWMutex keeps new readers out while a writer waits
	// (which is what makes a recursive read lock deadlock-prone)
	pending map[*Task]bool
}

// Policy parameters of one run (part of the plan, decided by the seed).
type Policy struct {
	Kind       string  `json:"kind"`        // "uniform" | "sticky" | "pct"
	SwitchP    float64 `json:"switch_p"`    // sticky: probability to leave the current task
	AdvanceP   float64 `json:"advance_p"`   // probability to advance the clock although tasks are eligible
	AdvancePal []int64 `json:"advance_pal"` // palette of advances in ns
	Mute       string  `json:"mute"`        // yield classes that do not park, e.g. "R6,R7"
	MapPerm    bool    `json:"map_perm"`    // permute map iteration order (seeded) instead of canonical order
	PCTDepth   int     `json:"pct_depth"`
	// DelayTask > 0: the DelayTask-th task started by a go statement is held back from its DelayAt-th
	// release on: it runs only when nothing else can (a notification handler that has read the
	// setting and gets to apply it after everybody else). Works on top of any Kind.
	DelayTask int `json:"delay_task,omitempty"`
	DelayAt   int `json:"delay_at,omitempty"`
	Overlap    int     `json:"overlap,omitempty"` // race mode: release up to this many eligible tasks in one step
	MaxSteps   int     `json:"max_steps"`
	IdleLimit  int     `json:"idle_limit"` // consecutive idle sleeps with no foreground progress => stuck
	HorizonNs  int64   `json:"horizon_ns"` // length of one idle sleep
	DeadlineNs int64   `json:"deadline_ns"`
}

type Sched struct {
	mu         sync.Mutex
	tasks      map[string]*Task
	byGID      map[uint64]*Task
	locks      map[any]*lockState
	parkNotify chan struct{}
	siteCount  map[string]int
	goSeq      int
	mapCount   map[string]int
	draining   atomic.Bool
	killOnPark atomic.Bool
	exempt     atomic.Uint64 // goroutine id whose zzsim calls are pass-through (set-up code)

	pol       Policy
	rng       *rand.Rand
	mapSeed   uint64
	muted     map[string]bool
	Decisions []string
	replay    []string
	replayPos int
	guided    bool
	Diverged  string

	lastTask  *Task
	prio      map[string]int
	pctChange map[int]bool

	Steps      int
	Overlaps   int
	Switches   int
	Unknown    []string // zzsim calls from goroutines that are not tasks
	TracePairs map[string]int
	traceHash  uint64
	lastSite   string
	Start      time.Time
	Stuck      string
	Panics     []string
	OnStep     func(step int) // invariant hook, runs at quiescence on the scheduler goroutine
	Quiesced   func() bool    // called at quiescence; true: something was woken, wait for quiescence again
	StopWhen   func() bool    // evaluated at quiescence
	fgDone     func() bool
	yieldCount map[string]int
}

// New creates a scheduler. seed drives every scheduling decision.
func New(seed uint64, pol Policy) *Sched {
	if pol.MaxSteps == 0 {
		pol.MaxSteps = 5000
	}
	if pol.IdleLimit == 0 {
		pol.IdleLimit = 40
	}
	if pol.HorizonNs == 0 {
		pol.HorizonNs = int64(time.Hour)
	}
	s := &Sched{
		tasks:      map[string]*Task{},
		byGID:      map[uint64]*Task{},
		locks:      map[any]*lockState{},
		parkNotify: make(chan struct{}, 1),
		siteCount:  map[string]int{},
		mapCount:   map[string]int{},
		pol:        pol,
		rng:        rand.New(rand.NewPCG(seed, 0x5eed5eed)),
		mapSeed:    seed*0x9e3779b97f4a7c15 + 1,
		muted:      map[string]bool{},
		prio:       map[string]int{},
		TracePairs: map[string]int{},
		yieldCount: map[string]int{},
		Start:      time.Now(),
	}
	for _, m := range strings.Split(pol.Mute, ",") {
		if m != "" {
			s.muted[m] = true
		}
	}
	if pol.Kind == "pct" {
		s.pctChange = map[int]bool{}
		for i := 0; i < pol.PCTDepth; i++ {
			s.pctChange[s.rng.IntN(400)] = true
		}
	}
	return s
}

// SetReplay makes the scheduler follow a recorded decision list. In strict
// mode a decision that is not applicable marks the run diverged; in guided
// mode the scheduler falls back to the lowest-name eligible task.
func (s *Sched) SetReplay(decisions []string, guided bool) {
	s.replay = decisions
	s.guided = guided
	if s.replay == nil {
		s.replay = []string{}
	}
}

// schedTrace: diagnosis only (VERIF_SCHED_TRACE=<file>): every step's tasks and where they wait.
var schedTrace = func() *os.File {
	if p := os.Getenv("VERIF_SCHED_TRACE"); p != "" {
		f, _ := os.Create(p)
		return f
	}
	return nil
}()

func (s *Sched) Attach() { active.Store(s) }
func (s *Sched) Detach() { active.CompareAndSwap(s, nil) }

func (s *Sched) cur() *Task {
	g := gid()
	s.mu.Lock()
	t := s.byGID[g]
	s.mu.Unlock()
	return t
}

// Exempt marks the calling goroutine as set-up context: its zzsim calls pass
// through without being scheduled or reported. Call Unexempt when done.
func (s *Sched) Exempt()   { s.exempt.Store(gid()) }
func (s *Sched) Unexempt() { s.exempt.Store(0) }

func (s *Sched) noteUnknown(site string) {
	if e := s.exempt.Load(); e != 0 && e == gid() {
		return
	}
	s.mu.Lock()
	if len(s.Unknown) < 20 {
		s.Unknown = append(s.Unknown, site)
	}
	s.mu.Unlock()
}

func (s *Sched) notify() {
	select {
	case s.parkNotify <- struct{}{}:
	default:
	}
}

func classOf(site string) string {
	if i := strings.LastIndexByte(site, ':'); i >= 0 {
		if site[i+1:] == "R6n" {
			return "R6" // a read nested in a statement: muted together with the other R6 points
		}
		return site[i+1:]
	}
	return ""
}

// park blocks the calling task until the scheduler releases it.
func (s *Sched) park(t *Task, site string, lock any, mode int, notBefore time.Time) {
	if s.draining.Load() {
		if t.kill {
			runtime.Goexit()
		}
		return
	}
	s.mu.Lock()
	t.state = stParked
	t.site = site
	t.waitLock = lock
	t.waitMode = mode
	t.notBefore = notBefore
	s.yieldCount[classOf(site)]++
	if s.draining.Load() {
		// Drain/KillAll started while we were on our way here: they may already have
		// collected the parked tasks, so do not wait for a release that never comes
		t.state = stRunning
		kill := t.kill
		s.mu.Unlock()
		if kill {
			runtime.Goexit()
		}
		return
	}
	s.mu.Unlock()
	s.notify()
	<-t.wake
	if t.kill {
		runtime.Goexit()
	}
}

// Yield is a scheduling point.
func Yield(site string) {
	s := active.Load()
	if s == nil {
		return
	}
	s.Yield(site)
}

// AdoptFunc wraps the function handed to singleflight: when the library runs it on a goroutine of
// its own (DoChan), that goroutine registers as a task for the duration of the call; when it runs
// on the caller (Do), the caller is a task already and nothing changes.
func AdoptFunc(site string, fn func() (any, error)) func() (any, error) {
	return func() (any, error) {
		s := active.Load()
		if s == nil || s.draining.Load() || s.cur() != nil {
			return fn()
		}
		leave := s.Adopt(s.UniqueName("sf:"+site), true)
		defer leave()
		return fn()
	}
}

// After is a yield point between the evaluation of v and its use inside one statement
// (inserted by the instrumenter around a read whose value feeds another call).
func After[T any](site string, v T) T {
	Yield(site)
	return v
}

func (s *Sched) Yield(site string) {
	if s.killOnPark.Load() {
		if t := s.cur(); t != nil {
			runtime.Goexit()
		}
		return
	}
	t := s.cur()
	if t == nil {
		if !s.draining.Load() {
			s.noteUnknown(site)
		}
		return
	}
	if s.muted[classOf(site)] {
		return
	}
	s.park(t, site, nil, modeNone, time.Time{})
}

// WaitUntil parks the calling task until the simulated clock reaches at.
func (s *Sched) WaitUntil(site string, at time.Time) {
	t := s.cur()
	if t == nil {
		panic("zzsim.WaitUntil from a goroutine that is not a task")
	}
	s.park(t, site, nil, modeNone, at)
}

// drainLock acquires a lock after the scheduler has been switched off (tear-down): it spins on
// TryLock and, if the lock never becomes free (it was leaked, or its holder was terminated),
// ends the goroutine instead of blocking on a real mutex for ever.
func drainLock(try func() bool) {
	for i := 0; i < 200000; i++ {
		if try() {
			return
		}
		runtime.Gosched()
	}
	runtime.Goexit()
}

func Lock(m Locker, site string) {
	s := active.Load()
	if s == nil {
		m.Lock()
		return
	}
	if s.draining.Load() {
		drainLock(m.TryLock)
		return
	}
	t := s.cur()
	if t == nil {
		s.noteUnknown(site)
		m.Lock()
		return
	}
	for {
		s.park(t, site, m, modeW, time.Time{})
		if s.draining.Load() {
			drainLock(m.TryLock)
			return
		}
		if m.TryLock() {
			s.acquired(m, t, modeW)
			return
		}
		// the lock is taken: from here on the task is blocked inside Lock()
		s.setPendingWriter(m, t)
	}
}

func RLock(m RLocker, site string) {
	s := active.Load()
	if s == nil {
		m.RLock()
		return
	}
	if s.draining.Load() {
		drainLock(m.TryRLock)
		return
	}
	t := s.cur()
	if t == nil {
		s.noteUnknown(site)
		m.RLock()
		return
	}
	for {
		s.park(t, site, m, modeR, time.Time{})
		if s.draining.Load() {
			drainLock(m.TryRLock)
			return
		}
		if m.TryRLock() {
			s.acquired(m, t, modeR)
			return
		}
	}
}

func TryLock(m Locker, site string) bool {
	s := active.Load()
	if s == nil || s.draining.Load() {
		return m.TryLock()
	}
	t := s.cur()
	if t == nil {
		s.noteUnknown(site)
		return m.TryLock()
	}
	s.park(t, site, nil, modeNone, time.Time{})
	ok := m.TryLock()
	if ok {
		s.acquired(m, t, modeW)
	}
	return ok
}

func TryRLock(m RLocker, site string) bool {
	s := active.Load()
	if s == nil || s.draining.Load() {
		return m.TryRLock()
	}
	t := s.cur()
	if t == nil {
		s.noteUnknown(site)
		return m.TryRLock()
	}
	s.park(t, site, nil, modeNone, time.Time{})
	if s.writerPending(m) {
		return false // as sync.RWMutex.TryRLock does while a writer waits
	}
	ok := m.TryRLock()
	if ok {
		s.acquired(m, t, modeR)
	}
	return ok
}

func Unlock(m Locker) {
	m.Unlock()
	if s := active.Load(); s != nil {
		s.released(m, modeW)
	}
}

func RUnlock(m RLocker) {
	m.RUnlock()
	if s := active.Load(); s != nil {
		s.released(m, modeR)
	}
}

func (s *Sched) acquired(m any, t *Task, mode int) {
	if s.pol.Overlap > 1 {
		// race mode: no holder bookkeeping. Every call here would be a synchronisation through
		// the scheduler's own mutex in the middle of a segment, i.e. a happens-before edge between
		// tasks that reservoir itself does not order, hiding real races from the detector.
		return
	}
	s.mu.Lock()
	ls := s.locks[m]
	if ls == nil {
		ls = &lockState{readers: map[*Task]int{}}
		s.locks[m] = ls
	}
	if mode == modeW {
		ls.writer = t
		if t != nil && t.pendingW {
			t.pendingW = false
			delete(ls.pending, t)
		}
	} else {
		ls.readers[t]++
	}
	if t != nil && t.firstAcq.IsZero() {
		t.firstAcq = time.Now()
	}
	s.mu.Unlock()
}

// MarkOp is called by a harness task before an operation on the system under test;
// FirstAcquire then tells at which (simulated) instant the operation first obtained a lock,
// i.e. the earliest instant at which it can have looked at shared state.
func (s *Sched) MarkOp() {
	if t := s.cur(); t != nil {
		s.mu.Lock()
		t.firstAcq = time.Time{}
		s.mu.Unlock()
	}
}

func (s *Sched) FirstAcquire() (time.Time, bool) {
	t := s.cur()
	if t == nil || s.pol.Overlap > 1 {
		return time.Time{}, false
	}
	s.mu.Lock()
	defer s.mu.Unlock()
	return t.firstAcq, !t.firstAcq.IsZero()
}

func (s *Sched) setPendingWriter(m any, t *Task) {
	if s.pol.Overlap > 1 {
		return
	}
	s.mu.Lock()
	ls := s.locks[m]
	if ls == nil {
		ls = &lockState{readers: map[*Task]int{}}
		s.locks[m] = ls
	}
	if ls.pending == nil {
		ls.pending = map[*Task]bool{}
	}
	ls.pending[t] = true
	t.pendingW = true
	s.mu.Unlock()
}

func (s *Sched) writerPending(m any) bool {
	if s.pol.Overlap > 1 {
		return false
	}
	s.mu.Lock()
	defer s.mu.Unlock()
	ls := s.locks[m]
	return ls != nil && len(ls.pending) > 0
}

func (s *Sched) released(m any, mode int) {
	if s.pol.Overlap > 1 {
		return
	}
	g := gid()
	s.mu.Lock()
	ls := s.locks[m]
	if ls != nil {
		if mode == modeW {
			ls.writer = nil
		} else {
			t := s.byGID[g]
			if t != nil && ls.readers[t] > 0 {
				ls.readers[t]--
				if ls.readers[t] == 0 {
					delete(ls.readers, t)
				}
			} else {
				// released by another goroutine than the acquirer: drop any one reader
				for k := range ls.readers {
					ls.readers[k]--
					if ls.readers[k] == 0 {
						delete(ls.readers, k)
					}
					break
				}
			}
		}
	}
	s.mu.Unlock()
}

// LockHeldBy reports the name of the task holding m for writing ("" if none)
// and the number of readers.
func (s *Sched) LockHeldBy(m any) (writer string, readers int) {
	s.mu.Lock()
	defer s.mu.Unlock()
	ls := s.locks[m]
	if ls == nil {
		return "", 0
	}
	if ls.writer != nil {
		writer = ls.writer.Name
	}
	return writer, len(ls.readers)
}

// Go starts fn as a scheduler-known task (instrumentation rule R3).
func Go(site string, fn func()) {
	s := active.Load()
	if s == nil || s.draining.Load() {
		go fn()
		return
	}
	s.mu.Lock()
	n := s.siteCount[site]
	s.siteCount[site] = n + 1
	s.mu.Unlock()
	name := fmt.Sprintf("go:%s#%d", site, n)
	gt := s.spawn(name, true, fn)
	s.mu.Lock()
	s.goSeq++
	gt.goSeq = s.goSeq
	s.mu.Unlock()
	// starting a goroutine is a point where the scheduler may switch (e.g. between the
	// deliveries of one Fire); set-up code outside any task just goes on
	if t := s.cur(); t != nil && !s.muted["R3"] {
		s.park(t, site, nil, modeNone, time.Time{})
	}
}

// Spawn starts a named harness task.
func (s *Sched) Spawn(name string, fn func()) *Task {
	return s.spawn(name, false, fn)
}

// SpawnBackground starts a named harness task that does not count as foreground.
func (s *Sched) SpawnBackground(name string, fn func()) *Task {
	return s.spawn(name, true, fn)
}

func (s *Sched) spawn(name string, background bool, fn func()) *Task {
	t := &Task{Name: name, Background: background, wake: make(chan struct{}, 1), state: stRunning}
	s.mu.Lock()
	if _, dup := s.tasks[name]; dup {
		s.mu.Unlock()
		panic("zzsim: duplicate task name " + name)
	}
	s.tasks[name] = t
	s.mu.Unlock()
	go func() {
		g := gid()
		s.mu.Lock()
		t.gid = g
		s.byGID[g] = t
		s.mu.Unlock()
		defer s.finish(t, g)
		s.park(t, "start", nil, modeNone, time.Time{})
		fn()
	}()
	return t
}

func (s *Sched) finish(t *Task, g uint64) {
	if r := recover(); r != nil {
		buf := make([]byte, 8192)
		n := runtime.Stack(buf, false)
		t.Panic = r
		t.PanicStack = string(buf[:n])
		s.mu.Lock()
		s.Panics = append(s.Panics, fmt.Sprintf("%s: %v", t.Name, r))
		s.mu.Unlock()
	}
	s.mu.Lock()
	t.state = stDone
	if t.pendingW {
		for _, ls := range s.locks {
			delete(ls.pending, t)
		}
		t.pendingW = false
	}
	delete(s.byGID, g)
	// a task that dies holding locks keeps them (as a real goroutine would)
	s.mu.Unlock()
	s.notify()
}

// Adopt registers the calling goroutine (e.g. a net/http connection goroutine
// entering a handler) as a task and parks it. The returned function must be
// called when the goroutine leaves the instrumented code.
func (s *Sched) Adopt(name string, background bool) (leave func()) {
	if s.draining.Load() {
		return func() {}
	}
	g := gid()
	t := &Task{Name: name, Background: background, wake: make(chan struct{}, 1), state: stRunning, gid: g}
	s.mu.Lock()
	if _, dup := s.tasks[name]; dup {
		s.mu.Unlock()
		panic("zzsim: duplicate task name " + name)
	}
	s.tasks[name] = t
	s.byGID[g] = t
	s.mu.Unlock()
	s.park(t, "adopt", nil, modeNone, time.Time{})
	return func() {
		s.mu.Lock()
		t.state = stDone
		delete(s.byGID, g)
		s.mu.Unlock()
		s.notify()
	}
}

// UniqueName returns base#k with k the number of earlier calls with this base.
func (s *Sched) UniqueName(base string) string {
	s.mu.Lock()
	n := s.siteCount["name:"+base]
	s.siteCount["name:"+base] = n + 1
	s.mu.Unlock()
	return fmt.Sprintf("%s#%d", base, n)
}

// MapOrder iterates a map in canonical (or seeded) order. Keys deleted while
// iterating are skipped, as the language allows.
func MapOrder[M ~map[K]V, K comparable, V any](site string, m M) iter.Seq2[K, V] {
	return func(yield func(K, V) bool) {
		s := active.Load()
		if s == nil {
			for k, v := range m {
				if !yield(k, v) {
					return
				}
			}
			return
		}
		keys := make([]K, 0, len(m))
		for k := range m {
			keys = append(keys, k)
		}
		if len(keys) > 1 {
			strs := make(map[K]string, len(keys))
			for _, k := range keys {
				strs[k] = fmt.Sprint(k)
			}
			slices.SortFunc(keys, func(a, b K) int { return cmp.Compare(strs[a], strs[b]) })
			if s.pol.MapPerm {
				s.mu.Lock()
				n := s.mapCount[site]
				s.mapCount[site] = n + 1
				s.mu.Unlock()
				h := s.mapSeed
				for i := 0; i < len(site); i++ {
					h = (h ^ uint64(site[i])) * 0x100000001b3
				}
				r := rand.New(rand.NewPCG(h, uint64(n)))
				r.Shuffle(len(keys), func(i, j int) { keys[i], keys[j] = keys[j], keys[i] })
			}
		}
		for _, k := range keys {
			v, ok := m[k]
			if !ok {
				continue
			}
			if !yield(k, v) {
				return
			}
		}
	}
}

// ---------------------------------------------------------------------------
// scheduling loop

type taskView struct {
	t    *Task
	name string
}

func (s *Sched) lockFree(t *Task) bool {
	if t.waitLock == nil {
		return true
	}
	ls := s.locks[t.waitLock]
	if ls == nil {
		return true
	}
	if t.waitMode == modeW {
		if !t.pendingW {
			return true // has not tried yet: it may run, find the lock taken and start waiting inside Lock()
		}
		return ls.writer == nil && len(ls.readers) == 0
	}
	// a reader waits for the writer, and for writers that are already waiting inside Lock()
	return ls.writer == nil && len(ls.pending) == 0
}

// snapshot returns eligible tasks (sorted by name), the earliest notBefore of a
// time-waiting task, and counts.
func (s *Sched) snapshot(now time.Time) (elig []*Task, nextWake time.Time, parked, running int, fgAlive bool) {
	s.mu.Lock()
	defer s.mu.Unlock()
	for _, t := range s.tasks {
		switch t.state {
		case stParked:
			parked++
			if !t.Background {
				fgAlive = true
			}
			if !t.notBefore.IsZero() && now.Before(t.notBefore) {
				if nextWake.IsZero() || t.notBefore.Before(nextWake) {
					nextWake = t.notBefore
				}
				continue
			}
			if s.lockFree(t) {
				elig = append(elig, t)
			}
		case stRunning:
			running++
			if !t.Background {
				fgAlive = true
			}
		}
	}
	sort.Slice(elig, func(i, j int) bool { return elig[i].Name < elig[j].Name })
	return
}

func (s *Sched) release(t *Task) {
	s.mu.Lock()
	t.state = stRunning
	site := t.site
	t.releases++
	s.mu.Unlock()
	if s.lastTask != t {
		s.Switches++
		pair := s.lastSite + ">" + site
		s.TracePairs[pair]++
	}
	s.lastTask = t
	s.lastSite = site
	// trace hash over (role, site)
	h := s.traceHash
	for _, str := range []string{roleOf(t.Name), site} {
		for i := 0; i < len(str); i++ {
			h = (h ^ uint64(str[i])) * 0x100000001b3
		}
		h = (h ^ 0xff) * 0x100000001b3
	}
	s.traceHash = h
	t.wake <- struct{}{}
}

func roleOf(name string) string {
	// strip per-run numbers: "client:3" -> "client", "srv:client3#2" -> "srv", "go:cache/x.go:59:R3#0" -> "go:cache/x.go:59:R3"
	if strings.HasPrefix(name, "go:") {
		if i := strings.LastIndexByte(name, '#'); i >= 0 {
			return name[:i]
		}
		return name
	}
	if i := strings.IndexByte(name, ':'); i >= 0 {
		return name[:i]
	}
	return name
}

func (s *Sched) TraceHash() uint64 { return s.traceHash }

func (s *Sched) sleep(d time.Duration) {
	tm := time.NewTimer(d)
	select {
	case <-s.parkNotify:
		tm.Stop()
	case <-tm.C:
	}
}

// AnyGoParked reports whether a task started by instrumented code (janitor,
// notifier, gc) is parked at a yield point, i.e. is in the middle of something.
func (s *Sched) AnyGoParked() bool { return s.anyBackgroundParked() }

// SetAdvanceP changes the probability of seeded clock advances from now on.
func (s *Sched) SetAdvanceP(p float64) { s.pol.AdvanceP = p }

func (s *Sched) anyBackgroundParked() bool {
	s.mu.Lock()
	defer s.mu.Unlock()
	for _, t := range s.tasks {
		if t.state == stParked && strings.HasPrefix(t.Name, "go:") {
			return true
		}
	}
	return false
}

// Run drives the world until done() is true at a quiescent point, the run is
// stuck, or the step budget is exhausted. It returns "" (finished), "stuck",
// "steps", "deadline" or "diverged".
func (s *Sched) Run(done func() bool) string {
	idle := 0
	for {
		synctest.Wait()
		// the world's transport delivers what is in flight now, with everything blocked; whoever
		// that wakes runs until blocked again before a task is released
		for n := 0; s.Quiesced != nil && s.Quiesced(); n++ {
			synctest.Wait()
			if n > 1000000 {
				panic("zzsim: the world does not come to rest")
			}
		}
		select {
		case <-s.parkNotify:
		default:
		}
		if s.OnStep != nil {
			s.OnStep(s.Steps)
		}
		if done() {
			return ""
		}
		if s.Steps >= s.pol.MaxSteps {
			return "steps"
		}
		now := time.Now()
		if s.pol.DeadlineNs > 0 && now.Sub(s.Start) > time.Duration(s.pol.DeadlineNs) {
			return "deadline"
		}
		elig, nextWake, _, _, _ := s.snapshot(now)
		if schedTrace != nil {
			fmt.Fprintf(schedTrace, "step %d t=%d:", s.Steps, now.Sub(s.Start))
			s.mu.Lock()
			for _, t := range s.tasks {
				if t.state == stParked || t.state == stRunning {
					fmt.Fprintf(schedTrace, " %s@%s/%d", t.Name, t.site, t.state)
				}
			}
			s.mu.Unlock()
			fmt.Fprintln(schedTrace)
		}
		fgElig := false
		for _, t := range elig {
			if !t.Background {
				fgElig = true
			}
		}
		if fgElig {
			idle = 0
		}
		if len(elig) == 0 {
			// nothing can run: let time pass until something parks or a waiter's time comes
			d := time.Duration(s.pol.HorizonNs)
			if !nextWake.IsZero() {
				if w := nextWake.Sub(now); w < d {
					d = w
				}
				idle = 0
			} else {
				idle++
			}
			if idle > s.pol.IdleLimit {
				s.Stuck = s.describeStuck()
				return "stuck"
			}
			s.Steps++
			Progress.Add(1)
			s.sleep(d)
			continue
		}
		if !fgElig {
			idle++
			if idle > s.pol.IdleLimit*4 {
				s.Stuck = s.describeStuck()
				return "stuck"
			}
		}
		s.Steps++
		Progress.Add(1)
		// --- choose
		if s.replay != nil {
			if s.replayPos < len(s.replay) {
				d := s.replay[s.replayPos]
				s.replayPos++
				if strings.HasPrefix(d, "+") {
					var ns int64
					fmt.Sscanf(d[1:], "%d", &ns)
					s.Decisions = append(s.Decisions, d)
					s.sleep(time.Duration(ns))
					continue
				}
				if strings.Contains(d, "&") {
					// race mode: a set of tasks released together
					var set []*Task
					for _, name := range strings.Split(d, "&") {
						for _, t := range elig {
							if t.Name == name {
								set = append(set, t)
							}
						}
					}
					if len(set) == 0 {
						set = []*Task{s.fallback(elig)}
					}
					s.Decisions = append(s.Decisions, d)
					for _, t := range set {
						s.release(t)
					}
					continue
				}
				var pick *Task
				for _, t := range elig {
					if t.Name == d {
						pick = t
					}
				}
				if pick == nil {
					if !s.guided {
						s.Diverged = fmt.Sprintf("step %d: decision %q not eligible (eligible: %s)", s.Steps, d, names(elig))
						return "diverged"
					}
					pick = s.fallback(elig)
				}
				s.Decisions = append(s.Decisions, pick.Name)
				s.release(pick)
				continue
			}
			pick := s.fallback(elig)
			s.Decisions = append(s.Decisions, pick.Name)
			s.release(pick)
			continue
		}
		if s.pol.AdvanceP > 0 && len(s.pol.AdvancePal) > 0 && s.rng.Float64() < s.pol.AdvanceP && !s.anyBackgroundParked() {
			ns := s.pol.AdvancePal[s.rng.IntN(len(s.pol.AdvancePal))]
			s.Decisions = append(s.Decisions, fmt.Sprintf("+%d", ns))
			s.sleep(time.Duration(ns))
			continue
		}
		pick := s.choose(elig)
		if s.pol.Overlap > 1 && len(elig) > 1 && s.rng.IntN(2) == 0 {
			// overlap window: several tasks run their next segment at the same time, so that the
			// race detector can see unordered conflicting accesses between them
			set := []*Task{pick}
			perm := s.rng.Perm(len(elig))
			for _, i := range perm {
				if len(set) >= s.pol.Overlap {
					break
				}
				if elig[i] != pick {
					set = append(set, elig[i])
				}
			}
			ns := make([]string, len(set))
			for i, t := range set {
				ns[i] = t.Name
			}
			s.Decisions = append(s.Decisions, strings.Join(ns, "&"))
			s.Overlaps++
			for _, t := range set {
				s.release(t)
			}
			continue
		}
		s.Decisions = append(s.Decisions, pick.Name)
		s.release(pick)
	}
}

// fallback: continue the last task if it is eligible, else the lowest name.
func (s *Sched) fallback(elig []*Task) *Task {
	for _, t := range elig {
		if t == s.lastTask {
			return t
		}
	}
	return elig[0]
}

func (s *Sched) choose(elig []*Task) *Task {
	if s.pol.DelayTask > 0 && len(elig) > 1 {
		var rest []*Task
		for _, t := range elig {
			if !(t.goSeq == s.pol.DelayTask && t.releases >= s.pol.DelayAt) {
				rest = append(rest, t)
			}
		}
		if len(rest) > 0 {
			elig = rest
		}
	}
	switch s.pol.Kind {
	case "sticky":
		if s.lastTask != nil {
			for _, t := range elig {
				if t == s.lastTask {
					if s.rng.Float64() >= s.pol.SwitchP {
						return t
					}
					break
				}
			}
		}
		return elig[s.rng.IntN(len(elig))]
	case "pct":
		// random priorities, assigned on first sight; at change points the
		// running task drops to the lowest priority
		for _, t := range elig {
			if _, ok := s.prio[t.Name]; !ok {
				s.prio[t.Name] = 1000 + s.rng.IntN(1000000)
			}
		}
		if s.pctChange[s.Steps] && s.lastTask != nil {
			s.prio[s.lastTask.Name] = s.rng.IntN(1000)
		}
		best := elig[0]
		for _, t := range elig[1:] {
			if s.prio[t.Name] > s.prio[best.Name] {
				best = t
			}
		}
		return best
	default:
		return elig[s.rng.IntN(len(elig))]
	}
}

func names(ts []*Task) string {
	var b []string
	for _, t := range ts {
		b = append(b, t.Name)
	}
	return strings.Join(b, ",")
}

func (s *Sched) describeStuck() string {
	s.mu.Lock()
	defer s.mu.Unlock()
	var parts []string
	for _, t := range s.tasks {
		switch t.state {
		case stParked:
			d := fmt.Sprintf("%s parked@%s", t.Name, t.site)
			if t.waitLock != nil {
				if ls := s.locks[t.waitLock]; ls != nil {
					h := ""
					if ls.writer != nil {
						h = ls.writer.Name
					}
					for r := range ls.readers {
						h += "+r:" + r.Name
					}
					d += " waits-lock-held-by[" + h + "]"
				}
			}
			parts = append(parts, d)
		case stRunning:
			parts = append(parts, t.Name+" blocked-outside(after "+t.site+")")
		}
	}
	sort.Strings(parts)
	return strings.Join(parts, "; ")
}

// TaskStates lists name -> "parked@site" | "blocked" | "done" for reports.
func (s *Sched) TaskStates() map[string]string {
	s.mu.Lock()
	defer s.mu.Unlock()
	out := map[string]string{}
	for _, t := range s.tasks {
		switch t.state {
		case stParked:
			out[t.Name] = "parked@" + t.site
		case stRunning:
			out[t.Name] = "blocked"
		default:
			out[t.Name] = "done"
		}
	}
	return out
}

// AllDone reports whether every task has finished.
func (s *Sched) AllDone() bool {
	s.mu.Lock()
	defer s.mu.Unlock()
	for _, t := range s.tasks {
		if t.state != stDone {
			return false
		}
	}
	return true
}

// TaskDone reports whether the named task has finished (or never existed).
func (s *Sched) TaskDone(name string) bool {
	s.mu.Lock()
	defer s.mu.Unlock()
	t := s.tasks[name]
	return t == nil || t.state == stDone
}

// BlockedOutside lists the tasks that, at a quiescent point, are neither parked at a yield point
// nor finished: they are blocked in an operation the scheduler does not model (a channel send
// nobody will receive, say), after having passed the named site.
func (s *Sched) BlockedOutside(siteSubstr string) []string {
	s.mu.Lock()
	defer s.mu.Unlock()
	var out []string
	for _, t := range s.tasks {
		if t.state == stRunning && strings.Contains(t.site, siteSubstr) {
			out = append(out, t.Name+" after "+t.site)
		}
	}
	sort.Strings(out)
	return out
}

// TaskReleases: how many times the task has been given the processor so far.
func (s *Sched) TaskReleases(name string) int {
	s.mu.Lock()
	defer s.mu.Unlock()
	if t := s.tasks[name]; t != nil {
		return t.releases
	}
	return 0
}

func (s *Sched) YieldCounts() map[string]int {
	s.mu.Lock()
	defer s.mu.Unlock()
	out := map[string]int{}
	for k, v := range s.yieldCount {
		out[k] = v
	}
	return out
}

// KillAll terminates every parked task at its yield point (deferred calls
// run, nothing else) — a process crash as far as in-memory state goes. Tasks
// blocked outside instrumented code are left to the caller (close their
// connections first).
func (s *Sched) KillAll(match func(name string) bool) {
	s.draining.Store(true)
	s.mu.Lock()
	var victims []*Task
	for _, t := range s.tasks {
		if t.state == stParked && (match == nil || match(t.Name)) {
			t.kill = true
			t.state = stRunning
			victims = append(victims, t)
		}
	}
	s.mu.Unlock()
	for _, t := range victims {
		t.wake <- struct{}{}
	}
	synctest.Wait()
	s.mu.Lock()
	for _, t := range victims {
		delete(s.tasks, t.Name)
	}
	// locks held by killed tasks were released by their deferred unlocks; drop stale state
	for k, ls := range s.locks {
		if ls.writer != nil && ls.writer.kill {
			ls.writer = nil
		}
		for r := range ls.readers {
			if r.kill {
				delete(ls.readers, r)
			}
		}
		_ = k
	}
	s.mu.Unlock()
	s.draining.Store(false)
}

// DrainGraceful ends the simulation for a world with request handlers: harness tasks, tasks
// started by instrumented code and tasks waiting for a lock are terminated at their yield
// point; handler tasks (srv:, origin:) run on in pass-through mode so that their own clean-up
// (closing response bodies, connections) happens — their connections have been aborted, so
// every I/O they attempt fails at once.
func (s *Sched) DrainGraceful() {
	s.mu.Lock()
	waiting := map[string]bool{}
	for _, t := range s.tasks {
		if t.state == stParked && t.waitLock != nil {
			waiting[t.Name] = true
		}
	}
	s.mu.Unlock()
	s.Drain(func(n string) bool {
		return waiting[n] || !(strings.HasPrefix(n, "srv:") || strings.HasPrefix(n, "origin:"))
	})
}

// DrainKillOnPark switches to pass-through mode like Drain(kill everything) and additionally
// terminates every task that reaches a yield point afterwards (goroutines that loop for ever
// on a ticker are ended at their post-tick yield).
func (s *Sched) DrainKillOnPark() {
	s.killOnPark.Store(true)
	s.Drain(func(string) bool { return true })
}

// Drain switches to pass-through mode and releases every parked task; tasks
// whose name matches kill are terminated at their yield point instead.
func (s *Sched) Drain(kill func(name string) bool) {
	s.draining.Store(true)
	s.mu.Lock()
	var wake []*Task
	for _, t := range s.tasks {
		if t.state == stParked {
			if kill != nil && kill(t.Name) {
				t.kill = true
			}
			t.state = stRunning
			wake = append(wake, t)
		}
	}
	s.mu.Unlock()
	for _, t := range wake {
		t.wake <- struct{}{}
	}
}
