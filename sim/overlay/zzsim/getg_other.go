//go:build !amd64

package zzsim

import "unsafe"

func getg() unsafe.Pointer { return nil }
