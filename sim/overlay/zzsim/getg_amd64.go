package zzsim

import "unsafe"

func getg() unsafe.Pointer
