#include "textflag.h"

// func getg() unsafe.Pointer
// The running goroutine's descriptor; only its goroutine id is read from it (see fastgid.go).
TEXT ·getg(SB),NOSPLIT,$0-8
	MOVQ (TLS), R14
	MOVQ R14, ret+0(FP)
	RET
