package zzsim

import (
	"os"
	"runtime"
	"unsafe"
)

// The scheduler recognises tasks by goroutine id. The portable way to learn it, parsing the
// first line of runtime.Stack, walks the whole stack to count the frames it leaves out: O(depth)
// per call, which turns unbounded recursion in the code under test (deliberately broken trees)
// from a one-second stack overflow into an hour of quadratic stack walking. So the id is read
// from the goroutine descriptor; the offset of the field is not assumed but found at start-up by
// comparing with the portable answer in several goroutines, and without a unique match the
// portable way stays in use.
var goidOff uintptr

func slowGid() uint64 {
	var buf [48]byte
	n := runtime.Stack(buf[:], false)
	// "goroutine 123 ["
	var id uint64
	for i := 10; i < n; i++ {
		c := buf[i]
		if c < '0' || c > '9' {
			break
		}
		id = id*10 + uint64(c-'0')
	}
	return id
}

//go:nocheckptr
func wordAt(g unsafe.Pointer, off uintptr) uint64 {
	return *(*uint64)(unsafe.Pointer(uintptr(g) + off))
}

func init() {
	if getg() == nil {
		return
	}
	const span = 320 // well inside the descriptor
	cand := map[uintptr]int{}
	rounds := 0
	probe := func() {
		id := slowGid()
		g := getg()
		for o := uintptr(0); o < span; o += 8 {
			if wordAt(g, o) == id {
				cand[o]++
			}
		}
		rounds++
	}
	probe()
	for i := 0; i < 6; i++ {
		done := make(chan struct{})
		go func() { probe(); close(done) }()
		<-done
	}
	var hit []uintptr
	for o, n := range cand {
		if n == rounds {
			hit = append(hit, o)
		}
	}
	if len(hit) == 1 && os.Getenv("VERIF_SLOW_GID") == "" {
		goidOff = hit[0]
	}
}

func gid() uint64 {
	if goidOff != 0 {
		return wordAt(getg(), goidOff)
	}
	return slowGid()
}

// GoidOffset reports the offset found at start-up (0: the portable way is in use).
func GoidOffset() uintptr { return goidOff }
