# sourced by every script in /verif/bin
export PATH=/opt/veriftools/go1.26.8/bin:$PATH
export GOTOOLCHAIN=local GOFLAGS=-mod=mod GOPROXY=off GOSUMDB=off GONOSUMDB='*' GONOSUMCHECK=1 GOFLAGS=-mod=mod
# cgo stays at its default: -race needs it
VERIF_ROOT="${VERIF_ROOT:-$(cd "$(dirname "${BASH_SOURCE[0]}")/.." && pwd)}"
REPO="${VERIF_REPO:-/repo}"
export VERIF_ROOT REPO
