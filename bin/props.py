# Per-property configuration of bin/check: which scenarios run, which oracle
# rules belong to the property, budgets per tier.

REAL_CACHE = ["reservoir/cache (both backends, janitor)", "reservoir/config", "reservoir/utils/event", "reservoir/metrics", "kernel file system (tmpfs)"]
STUB_CACHE = ["clock (synctest fake clock)", "goroutine scheduling (seeded cooperative scheduler)", "map iteration order (canonical/seeded)", "source readers (scripted, fault-injecting)"]

REAL_PROXY = ["reservoir/proxy (handler, fetcher, responders, headers)", "reservoir/cache", "reservoir/config", "net/http server and transport", "crypto/tls (tunnels)", "golang.org/x/sync/singleflight", "kernel file system (tmpfs)"]
STUB_PROXY = ["clock (synctest fake clock)", "goroutine scheduling (seeded cooperative scheduler)", "network (in-memory simnet connections)", "origin application (scripted, versioned bodies, fault-injecting)", "clients (raw-wire, scripted)"]

NOT_APPLICABLE = {}
HOOK_COMMITS = []

SIM_NOTE = "Trusted base: Go runtime and testing/synctest (fake clock, quiescence), the instrumenter (validated by running the repository's own suite on the instrumented copy), the harness oracles. Samples schedules and faults; a clean batch is evidence, not proof."

PROPS = {
    "C01": {
        "scenarios": ["cache-lin", "cache-linfault", "cache-cnt", "integrity", "integrity"],
        "rules": ["C01."],
        "level": "exploration",
        "rule_text": "seeded plans (backend, shards, <=3 keys, 2-4 actors x <=8 ops: put/get/del/upd with chunked sources and chunked readers, source/disk faults) x seeded schedules; distinct = distinct (plan, schedule-trace) hash; non-trivial = a reader was open across a store/delete of its key, a store failed, or another property probe fired",
        "quick": {"runs": 6000, "budget_s": 40},
        "thorough": {"runs": 600000, "budget_s": 600},
        "real": REAL_CACHE + REAL_PROXY, "stub": STUB_CACHE + STUB_PROXY,
        "level_text": "Seeded exploration of interleavings of readers (at any read position) with stores/overwrites/deletes/evictions and of source/disk write failures, on both backends; every delivered body must be one complete stored version paired with its metadata; per-key histories are checked for linearizability with porcupine.",
        "level_note": SIM_NOTE,
        "assumptions": ["bodies are attributed by content: byte i of version v of key k is a hash of (k,v,i)", "linearizability is checked per key with porcupine on janitor-inert plans only"],
    },
    "C12": {
        "scenarios": ["cache-cnt", "cache-cnt", "cache-cntdisk"],
        "rules": ["C12."],
        "level": "exploration",
        "rule_text": "seeded operation histories over <=3 keys (store, overwrite, failing/empty store, delete, get, metadata update, expiry + janitor ticks, evictions, limit/interval changes) x seeded schedules, judged at quiescent checkpoints; non-trivial = overwrite, failed store, eviction or cleanup cycle occurred",
        "quick": {"runs": 6000, "budget_s": 40},
        "thorough": {"runs": 600000, "budget_s": 600},
        "real": REAL_CACHE, "stub": STUB_CACHE,
        "level_text": "Seeded exploration of operation histories and interleavings ending in quiescence, with failing/empty sources and kernel-level disk faults (short write at byte k via RLIMIT_FSIZE, squatted path); counters, retrievable entries and the cache directory must agree at every quiescent checkpoint.",
        "level_note": SIM_NOTE,
        "assumptions": ["reported size/count = metrics.Global.Cache.BytesCached/CacheEntries (what the dashboard API shows) and the internal counter that drives eviction"],
    },
    "C14": {
        "scenarios": ["cache-stress", "cache-cnt"],
        "rules": ["C14."],
        "level": "exploration",
        "rule_text": "seeded stress plans (small limits so stores evict from inside Cache(), janitor ticks every 1-500 ms, limit/interval changes, Destroy at a random point; shards 1,2,3,16; both backends) x seeded schedules; deadlock is decided: no eligible task and no timer progress; non-trivial = evictions/cleanup cycles/failed stores occurred",
        "quick": {"runs": 6000, "budget_s": 40},
        "thorough": {"runs": 600000, "budget_s": 600},
        "real": REAL_CACHE, "stub": STUB_CACHE,
        "level_text": "Seeded exploration of interleavings of store/get/delete/update with store-triggered eviction, janitor ticks, limit/interval changes and Destroy; a deadlock is decided by the scheduler (tasks blocked on locks, nothing eligible, no timer), not by a timeout.",
        "level_note": SIM_NOTE,
        "assumptions": ["a lock taken through a primitive the instrumenter does not rewrite would stall a step and is reported as infrastructure trouble, not as a deadlock"],
    },
    "C03": {
        "scenarios": ["seq-c03", "seq-c03", "seq-c06"],
        "rules": ["C03."],
        "level": "exploration",
        "rule_text": "seeded sequential request histories on one resource through the full proxy stack: gaps placed around the reference lifetime (L-1s, L, L+1s, 2L, default+-1s, random), Cache-Control forms (letter case, several lines, extra directives, quoted/malformed values) x Expires forms (IMF, RFC 850, asctime, 0, -1, garbage, past, future) x ignore_cache_control x force_default_max_age x default_max_age in {1s,90s,1h}, janitor interval below and above the lifetime; judged by a reference freshness model built from the statement; distinct = (plan, schedule) hash; non-trivial = at least one response was a HIT or REVALIDATED",
        "quick": {"runs": 6000, "budget_s": 40},
        "thorough": {"runs": 400000, "budget_s": 600},
        "real": REAL_PROXY, "stub": STUB_PROXY,
        "level_text": "Seeded exploration of request histories in simulated time (hour-long gaps cost microseconds) against an independent reference model of freshness lifetime, HIT labelling and Age/ttl arithmetic.",
        "level_note": SIM_NOTE,
        "assumptions": ["the instant of equality (age == lifetime) is accepted either way", "with ignore_cache_control a max-age=0/no-store response has no stated lifetime: not judged"],
    },
    "C04": {
        "scenarios": ["seq-c04", "seq-c04", "seq-c03"],
        "rules": ["C04."],
        "level": "exploration",
        "rule_text": "seeded histories [req1 (GET/HEAD/POST), req2.. (GET)] on one resource whose origin answers with status in {200,201,203,204,301,400,404,410,500,503} and header sets from the C03 grammar plus no-store/no-cache/private/public/must-revalidate/s-maxage in any case, repetition and line split; three-valued reference storable(): must-not => next GET reaches the origin, must => next GET within the lifetime is answered without origin contact; non-trivial = a HIT/REVALIDATED occurred",
        "quick": {"runs": 6000, "budget_s": 40},
        "thorough": {"runs": 400000, "budget_s": 600},
        "real": REAL_PROXY, "stub": STUB_PROXY,
        "level_text": "Seeded exploration of (method, status, header set, cache_policy) inputs through the running proxy, judged in both directions by a three-valued reference of storability.",
        "level_note": SIM_NOTE,
        "assumptions": ["responses carrying Vary or Set-Cookie and malformed max-age values are judged 'may' (the statement is silent)"],
    },
    "C06": {
        "scenarios": ["seq-c06"],
        "rules": ["C06."],
        "level": "exploration",
        "rule_text": "seeded histories interleaving client GETs (some carrying marker conditionals), clock advances past the lifetime, origin version changes, and origin answers {304, 200, 404, 500} to the conditional request; validator combinations {ETag, Last-Modified, both, none, weak}; judged against the origin's request log and a reference entry state; non-trivial = a revalidation happened",
        "quick": {"runs": 6000, "budget_s": 40},
        "thorough": {"runs": 400000, "budget_s": 600},
        "real": REAL_PROXY, "stub": STUB_PROXY,
        "level_text": "Seeded exploration of histories with expiry and origin changes; the origin log decides which validators were sent, the reference state decides which body and label the client must see.",
        "level_note": SIM_NOTE,
        "assumptions": ["if the stored response had no validator of a kind, nothing is demanded about that conditional header"],
    },
    "C05": {
        "scenarios": ["coal", "coal-fault"],
        "rules": ["C05."],
        "level": "exploration",
        "rule_text": "N in 2..8 clients request one resource at the same simulated instant on a cold, fresh or stale key; the origin handler is a task the scheduler gates and its body is sent in chunks; plain and CONNECT transports, both backends; fault family: one client (follower or the one whose fetch is in flight) disconnects before the response or after k body bytes, small network buffers; oracle: origin request log (count, conditional) + per-client body attribution; non-trivial = at least two clients were waiting on one origin fetch",
        "quick": {"runs": 4000, "budget_s": 40},
        "thorough": {"runs": 300000, "budget_s": 600},
        "real": REAL_PROXY, "stub": STUB_PROXY,
        "level_text": "Seeded exploration of arrival orders, overlaps and disconnect points of identical requests under a scheduler that decides which client, server, origin or janitor task runs next.",
        "level_note": SIM_NOTE,
        "required_probes": ["two_or_more_clients_waiting_on_one_fetch"],
        "assumptions": ["with a disconnecting client the origin may be asked once more per disconnected client"],
    },
    "C09": {
        "scenarios": ["trouble"],
        "rules": ["C09."],
        "level": "exploration",
        "rule_text": "the origin answers every request successfully while the cache is in trouble: limit about one body (store-triggered eviction) with shards 1/2/16, an evictor task deleting entries in windows the scheduler picks, zero-length bodies, RLIMIT_FSIZE short writes on the file backend, short lifetimes and janitor ticks; oracle: every client that did not hang up gets a complete 2xx (or 416 for an unsatisfiable range) carrying the origin's answer; non-trivial = a HIT/REVALIDATED occurred or a fault fired",
        "quick": {"runs": 4000, "budget_s": 40},
        "thorough": {"runs": 300000, "budget_s": 600},
        "real": REAL_PROXY, "stub": STUB_PROXY,
        "level_text": "Seeded fault injection on the cache side (full cache, eviction in every window, empty body, kernel-level short writes) while the origin is healthy; any error status, dropped connection or hang is a violation.",
        "level_note": SIM_NOTE,
        "assumptions": ["origin failures are a separate family and are not judged here"],
    },
}
