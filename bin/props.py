# Per-property configuration of bin/check: which scenarios run, which oracle
# rules belong to the property, budgets per tier.

REAL_CACHE = ["reservoir/cache (both backends, janitor)", "reservoir/config", "reservoir/utils/event", "reservoir/metrics", "kernel file system (tmpfs)"]
STUB_CACHE = ["clock (synctest fake clock)", "goroutine scheduling (seeded cooperative scheduler)", "map iteration order (canonical/seeded)", "source readers (scripted, fault-injecting)"]

NOT_APPLICABLE = {}
HOOK_COMMITS = []

SIM_NOTE = "Trusted base: Go runtime and testing/synctest (fake clock, quiescence), the instrumenter (validated by running the repository's own suite on the instrumented copy), the harness oracles. Samples schedules and faults; a clean batch is evidence, not proof."

PROPS = {
    "C01": {
        "scenarios": ["cache-lin", "cache-linfault", "cache-cnt"],
        "rules": ["C01."],
        "level": "exploration",
        "rule_text": "seeded plans (backend, shards, <=3 keys, 2-4 actors x <=8 ops: put/get/del/upd with chunked sources and chunked readers, source/disk faults) x seeded schedules; distinct = distinct (plan, schedule-trace) hash; non-trivial = a reader was open across a store/delete of its key, a store failed, or another property probe fired",
        "quick": {"runs": 6000, "budget_s": 40},
        "thorough": {"runs": 600000, "budget_s": 600},
        "real": REAL_CACHE, "stub": STUB_CACHE,
        "level_text": "Seeded exploration of interleavings of readers (at any read position) with stores/overwrites/deletes/evictions and of source/disk write failures, on both backends; every delivered body must be one complete stored version paired with its metadata; per-key histories are checked for linearizability with porcupine.",
        "level_note": SIM_NOTE,
        "assumptions": ["bodies are attributed by content: byte i of version v of key k is a hash of (k,v,i)", "linearizability is checked per key with porcupine on janitor-inert plans only"],
    },
    "C12": {
        "scenarios": ["cache-cnt", "cache-cnt", "cache-cntdisk"],
        "rules": ["C12."],
        "level": "exploration",
        "rule_text": "seeded operation histories over <=3 keys (store, overwrite, failing/empty store, delete, get, metadata update, expiry + janitor ticks, evictions, limit/interval changes) x seeded schedules, judged at quiescent checkpoints; non-trivial = overwrite, failed store, eviction or cleanup cycle occurred",
        "quick": {"runs": 6000, "budget_s": 40},
        "thorough": {"runs": 600000, "budget_s": 600},
        "real": REAL_CACHE, "stub": STUB_CACHE,
        "level_text": "Seeded exploration of operation histories and interleavings ending in quiescence, with failing/empty sources and kernel-level disk faults (short write at byte k via RLIMIT_FSIZE, squatted path); counters, retrievable entries and the cache directory must agree at every quiescent checkpoint.",
        "level_note": SIM_NOTE,
        "assumptions": ["reported size/count = metrics.Global.Cache.BytesCached/CacheEntries (what the dashboard API shows) and the internal counter that drives eviction"],
    },
    "C14": {
        "scenarios": ["cache-stress", "cache-cnt"],
        "rules": ["C14."],
        "level": "exploration",
        "rule_text": "seeded stress plans (small limits so stores evict from inside Cache(), janitor ticks every 1-500 ms, limit/interval changes, Destroy at a random point; shards 1,2,3,16; both backends) x seeded schedules; deadlock is decided: no eligible task and no timer progress; non-trivial = evictions/cleanup cycles/failed stores occurred",
        "quick": {"runs": 6000, "budget_s": 40},
        "thorough": {"runs": 600000, "budget_s": 600},
        "real": REAL_CACHE, "stub": STUB_CACHE,
        "level_text": "Seeded exploration of interleavings of store/get/delete/update with store-triggered eviction, janitor ticks, limit/interval changes and Destroy; a deadlock is decided by the scheduler (tasks blocked on locks, nothing eligible, no timer), not by a timeout.",
        "level_note": SIM_NOTE,
        "assumptions": ["a lock taken through a primitive the instrumenter does not rewrite would stall a step and is reported as infrastructure trouble, not as a deadlock"],
    },
}
